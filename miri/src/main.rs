//! mtmiri — micro-schedule tier for property C13.
//!
//! The operation-level simulator (`mtsim`) releases one caller at a time, so two
//! validation calls never overlap; a shared flag or cache written *during* a call
//! is invisible to it. This driver closes that gap with Miri as the simulator:
//! Miri interprets the real library code and owns the thread scheduler — with
//! `-Zmiri-seed=<n> -Zmiri-preemption-rate=<p>` it preempts threads at basic-block
//! boundaries, deterministically per seed, so one seed is one exactly repeatable
//! interleaving of *overlapping* validation calls.
//!
//!   cargo +nightly miri run --offline -- <subject index> [rounds]
//!   cargo +nightly miri run --offline -- count
//!
//! Prints `MICRO-OK …` or `MICRO-VIOLATION …` lines; exit 1 on violation.

use std::sync::Arc;
use swift_mt_message::{ParsedSwiftMessage, SwiftParser};

mod subjects;
use subjects::SUBJECTS;

macro_rules! on_parsed {
    ($p:expr, $m:ident => $e:expr) => {
        match $p {
            ParsedSwiftMessage::MT101($m) => $e,
            ParsedSwiftMessage::MT103($m) => $e,
            ParsedSwiftMessage::MT104($m) => $e,
            ParsedSwiftMessage::MT107($m) => $e,
            ParsedSwiftMessage::MT110($m) => $e,
            ParsedSwiftMessage::MT111($m) => $e,
            ParsedSwiftMessage::MT112($m) => $e,
            ParsedSwiftMessage::MT190($m) => $e,
            ParsedSwiftMessage::MT191($m) => $e,
            ParsedSwiftMessage::MT192($m) => $e,
            ParsedSwiftMessage::MT196($m) => $e,
            ParsedSwiftMessage::MT199($m) => $e,
            ParsedSwiftMessage::MT200($m) => $e,
            ParsedSwiftMessage::MT202($m) => $e,
            ParsedSwiftMessage::MT204($m) => $e,
            ParsedSwiftMessage::MT205($m) => $e,
            ParsedSwiftMessage::MT210($m) => $e,
            ParsedSwiftMessage::MT290($m) => $e,
            ParsedSwiftMessage::MT291($m) => $e,
            ParsedSwiftMessage::MT292($m) => $e,
            ParsedSwiftMessage::MT296($m) => $e,
            ParsedSwiftMessage::MT299($m) => $e,
            ParsedSwiftMessage::MT900($m) => $e,
            ParsedSwiftMessage::MT910($m) => $e,
            ParsedSwiftMessage::MT920($m) => $e,
            ParsedSwiftMessage::MT935($m) => $e,
            ParsedSwiftMessage::MT940($m) => $e,
            ParsedSwiftMessage::MT941($m) => $e,
            ParsedSwiftMessage::MT942($m) => $e,
            ParsedSwiftMessage::MT950($m) => $e,
        }
    };
}

fn vnr(p: &ParsedSwiftMessage, stop: bool) -> Vec<String> {
    on_parsed!(p, m => m.fields.validate_network_rules(stop)).iter().map(|e| format!("{e:?}")).collect()
}

fn swift_validate(p: &ParsedSwiftMessage) -> (bool, usize) {
    let r = on_parsed!(p, m => m.validate());
    (r.is_valid, r.errors.len())
}

fn main() {
    let args: Vec<String> = std::env::args().collect();
    let subjects = SUBJECTS;
    if args.get(1).map(|s| s.as_str()) == Some("count") {
        println!("{}", subjects.len());
        return;
    }
    let idx: usize = args.get(1).and_then(|s| s.parse().ok()).unwrap_or(0) % subjects.len().max(1);
    let rounds: usize = args.get(2).and_then(|s| s.parse().ok()).unwrap_or(3);
    let text = subjects[idx].2.to_string();
    let mt = subjects[idx].0.to_string();
    let p = match SwiftParser::parse_auto(&text) {
        Ok(p) => Arc::new(p),
        Err(e) => {
            // not a verdict: the recorded subject is no longer in the property's domain
            println!("MICRO-SKIP subject={idx} mt={mt} does not parse on this tree: {e}");
            return;
        }
    };
    // reference: the same calls without any overlap
    let l = vnr(&p, false);
    let s = vnr(&p, true);
    let v = swift_validate(&p);
    let mut bad: Vec<String> = vec![];
    if !(s.len() <= l.len() && s[..] == l[..s.len()] && s.is_empty() == l.is_empty()) || v != (l.is_empty(), l.len()) {
        // a sequential disagreement is the operation-level simulator's business; report it all the same
        bad.push(format!("I2 (already without any overlap) the entry points disagree on this subject: full={} stop={} validate={:?}", l.len(), s.len(), v));
    }
    let (l, p2) = (Arc::new(l), p.clone());
    let mut hs = vec![];
    {
        let (l, p) = (l.clone(), p2.clone());
        hs.push(std::thread::spawn(move || {
            let mut bad = vec![];
            for r in 0..rounds {
                let got = vnr(&p, false);
                if got != *l {
                    bad.push(format!("I1 full validation #{r} overlapping other calls returned {} error(s), the non-overlapping one {}", got.len(), l.len()));
                }
            }
            bad
        }));
    }
    {
        let (l, p) = (l.clone(), p2.clone());
        hs.push(std::thread::spawn(move || {
            let mut bad = vec![];
            for r in 0..rounds {
                let got = vnr(&p, true);
                let ok = got.len() <= l.len() && got[..] == l[..got.len()] && got.is_empty() == l.is_empty();
                if !ok {
                    bad.push(format!("I2 stop-on-first validation #{r} overlapping other calls is not a non-empty prefix of the full list ({} vs {})", got.len(), l.len()));
                }
            }
            bad
        }));
    }
    {
        let (l, p) = (l.clone(), p2.clone());
        hs.push(std::thread::spawn(move || {
            let mut bad = vec![];
            for r in 0..rounds {
                let got = swift_validate(&p);
                if got != (l.is_empty(), l.len()) {
                    bad.push(format!("I3 SwiftMessage::validate #{r} overlapping other calls returned valid={} with {} error(s), the full list has {}", got.0, got.1, l.len()));
                }
            }
            bad
        }));
    }
    for h in hs {
        match h.join() {
            Ok(b) => bad.extend(b),
            Err(_) => println!("MICRO-NOTE subject={idx} a caller thread panicked (C07 territory, not a C13 verdict)"),
        }
    }
    if bad.is_empty() {
        println!("MICRO-OK subject={idx} mt={mt} errors_in_full_list={} rounds={rounds} callers=3", l.len());
    } else {
        for b in &bad {
            println!("MICRO-VIOLATION subject={idx} mt={mt} {b}");
        }
        std::process::exit(1);
    }
}
