//! mtmiri — micro-schedule tier for property C13.
//!
//! The operation-level simulator (`mtsim`) releases one caller at a time, so two
//! validation calls never overlap; a shared flag or cache written *during* a call
//! is invisible to it. This driver closes that gap with Miri as the simulator:
//! Miri interprets the real library code and owns the thread scheduler — with
//! `-Zmiri-seed=<n> -Zmiri-preemption-rate=<p>` it preempts threads at basic-block
//! boundaries, deterministically per seed, so one seed is one exactly repeatable
//! interleaving of *overlapping* validation calls.
//!
//!   cargo +nightly miri run --offline -- <subject index> [rounds]
//!   cargo +nightly miri run --offline -- count
//!
//! Prints `MICRO-OK …` or `MICRO-VIOLATION …` lines; exit 1 on violation.

use std::sync::Arc;
use swift_mt_message::{ParsedSwiftMessage, SwiftParser};

mod subjects;
use subjects::SUBJECTS;

macro_rules! on_parsed {
    ($p:expr, $m:ident => $e:expr) => {
        match $p {
            ParsedSwiftMessage::MT101($m) => $e,
            ParsedSwiftMessage::MT103($m) => $e,
            ParsedSwiftMessage::MT104($m) => $e,
            ParsedSwiftMessage::MT107($m) => $e,
            ParsedSwiftMessage::MT110($m) => $e,
            ParsedSwiftMessage::MT111($m) => $e,
            ParsedSwiftMessage::MT112($m) => $e,
            ParsedSwiftMessage::MT190($m) => $e,
            ParsedSwiftMessage::MT191($m) => $e,
            ParsedSwiftMessage::MT192($m) => $e,
            ParsedSwiftMessage::MT196($m) => $e,
            ParsedSwiftMessage::MT199($m) => $e,
            ParsedSwiftMessage::MT200($m) => $e,
            ParsedSwiftMessage::MT202($m) => $e,
            ParsedSwiftMessage::MT204($m) => $e,
            ParsedSwiftMessage::MT205($m) => $e,
            ParsedSwiftMessage::MT210($m) => $e,
            ParsedSwiftMessage::MT290($m) => $e,
            ParsedSwiftMessage::MT291($m) => $e,
            ParsedSwiftMessage::MT292($m) => $e,
            ParsedSwiftMessage::MT296($m) => $e,
            ParsedSwiftMessage::MT299($m) => $e,
            ParsedSwiftMessage::MT900($m) => $e,
            ParsedSwiftMessage::MT910($m) => $e,
            ParsedSwiftMessage::MT920($m) => $e,
            ParsedSwiftMessage::MT935($m) => $e,
            ParsedSwiftMessage::MT940($m) => $e,
            ParsedSwiftMessage::MT941($m) => $e,
            ParsedSwiftMessage::MT942($m) => $e,
            ParsedSwiftMessage::MT950($m) => $e,
        }
    };
}

fn vnr(p: &ParsedSwiftMessage, stop: bool) -> Vec<String> {
    on_parsed!(p, m => m.fields.validate_network_rules(stop)).iter().map(|e| format!("{e:?}")).collect()
}

fn swift_validate(p: &ParsedSwiftMessage) -> (bool, usize) {
    let r = on_parsed!(p, m => m.validate());
    (r.is_valid, r.errors.len())
}

/// C16 workload on one block-4 text: tokenise, split (three configs), repetitive sequences,
/// drain every key through the sequential finder with a fresh tracker. The result is rendered
/// in input (stamp) order, so it must not depend on hash order, on the thread, or on what other
/// threads are doing at the same time.
fn c16_workload(b4: &str) -> String {
    use swift_mt_message::parser::{
        find_field_with_variant_sequential_constrained, get_sequence_config, parse_block4_fields, parse_repetitive_sequence,
        split_into_sequences, FieldConsumptionTracker, SequenceConfig,
    };
    let mut out = String::new();
    let tt = std::time::Instant::now();
    let prof = std::env::var("MTMIRI_PROF").is_ok();
    let map = match parse_block4_fields(b4) {
        Ok(m) => m,
        Err(e) => return format!("tokeniser error {e}"),
    };
    let flat = |m: &std::collections::HashMap<String, Vec<(String, usize)>>| {
        let mut v: Vec<(usize, String, String)> = m.iter().flat_map(|(k, vs)| vs.iter().map(move |(c, p)| (*p, k.clone(), c.clone()))).collect();
        v.sort();
        v
    };
    if prof { println!("PROF tokenise {:?}", tt.elapsed()); }
    if prof { println!("PROF tokenise {:?}", tt.elapsed()); }
    let all = flat(&map);
    for (p, k, c) in &all {
        // no `{:?}` on strings: char-by-char escaping is what the interpreter is slowest at
        out.push_str("field ");
        out.push_str(&p.to_string());
        out.push(' ');
        out.push_str(k);
        out.push(' ');
        out.push_str(c);
        out.push('\n');
    }
    let cfgs = [
        get_sequence_config("MT101"),
        get_sequence_config("MT104"),
        SequenceConfig { sequence_b_marker: "61".into(), sequence_c_fields: vec!["62".into(), "64".into(), "65".into(), "86".into()], has_sequence_c: true },
    ];
    for cfg in &cfgs {
        match split_into_sequences(&map, cfg) {
            Ok(ps) => out.push_str(&format!(
                "split {} A{:?} B{:?} C{:?}\n",
                cfg.sequence_b_marker,
                flat(&ps.sequence_a).iter().map(|f| f.0).collect::<Vec<_>>(),
                flat(&ps.sequence_b).iter().map(|f| f.0).collect::<Vec<_>>(),
                flat(&ps.sequence_c).iter().map(|f| f.0).collect::<Vec<_>>()
            )),
            Err(e) => out.push_str(&format!("split error {e}\n")),
        }
    }
    if prof { println!("PROF splits done {:?}", tt.elapsed()); }
    if prof { println!("PROF splits done {:?}", tt.elapsed()); }
    for marker in ["21", "61", "20"] {
        match parse_repetitive_sequence::<swift_mt_message::messages::MT101>(&map, marker) {
            Ok(items) => out.push_str(&format!("items {marker} {:?}\n", items.iter().map(|i| flat(i).iter().map(|f| f.0).collect::<Vec<_>>()).collect::<Vec<_>>())),
            Err(e) => out.push_str(&format!("items error {e}\n")),
        }
    }
    if prof { println!("PROF items done {:?}", tt.elapsed()); }
    if prof { println!("PROF items done {:?}", tt.elapsed()); }
    let mut keys: Vec<String> = map.keys().cloned().collect();
    keys.sort();
    let mut tracker = FieldConsumptionTracker::new();
    let mut handed = 0;
    for k in &keys {
        let base: String = k.chars().take_while(|c| c.is_ascii_digit()).collect();
        // by base tag first (variants in input order), then whatever is left under the exact key
        for probe in [base.as_str(), k.as_str()] {
            while let Some((_, var, pos)) = find_field_with_variant_sequential_constrained(&map, probe, &mut tracker, None) {
                out.push_str("take ");
                out.push_str(probe);
                out.push(' ');
                out.push_str(var.as_deref().unwrap_or("-"));
                out.push(' ');
                out.push_str(&pos.to_string());
                out.push('\n');
                handed += 1;
                if handed > all.len() + 4 {
                    break;
                }
            }
        }
    }
    if prof { println!("PROF drain done {:?}", tt.elapsed()); }
    if prof { println!("PROF drain done {:?}", tt.elapsed()); }
    out.push_str(&format!("handed {handed} of {}\n", all.len()));
    out
}

fn run_c16(idx: usize, rounds: usize) {
    let n = SUBJECTS.len();
    // the interpreter needs seconds per kilobyte of block 4: work on the short subjects
    let mut by_len: Vec<usize> = (0..n).collect();
    by_len.sort_by_key(|i| SUBJECTS[*i].2.len());
    let small = &by_len[..n.min(10)];
    let (ia, ib) = (small[idx % small.len()], small[(idx + 3) % small.len()]);
    // block 4 by plain slicing (the envelope scanner is not what this stage is about, and costs the interpreter seconds)
    let b4 = |i: usize| {
        let t = SUBJECTS[i % n].2;
        let a = t.find("{4:").map(|p| p + 3).unwrap_or(0);
        let b = t[a..].find("\n-}").map(|p| a + p).unwrap_or(t.len());
        t[a..b].to_string()
    };
    let (t0, t1) = (b4(ia), b4(ib));
    let prof = std::env::var("MTMIRI_PROF").is_ok();
    let i0 = std::time::Instant::now();
    let (r0, r1) = (Arc::new(c16_workload(&t0)), Arc::new(c16_workload(&t1)));
    if prof {
        println!("PROF two sequential workloads: {:?} (texts {} and {} bytes, results {} and {} bytes)", i0.elapsed(), t0.len(), t1.len(), r0.len(), r1.len());
    }
    let mut bad: Vec<String> = vec![];
    for (name, r) in [("a", &r0), ("b", &r1)] {
        if let Some(l) = r.lines().last() {
            let nums: Vec<&str> = l.split_whitespace().collect();
            if nums.len() == 4 && nums[1] != nums[3] {
                bad.push(format!("T3 (already without any overlap) text {name}: {l}"));
            }
        }
    }
    let mut hs = vec![];
    for (who, text, reference) in [("A", t0.clone(), r0.clone()), ("B", t1.clone(), r1.clone()), ("C", t0.clone(), r0.clone())] {
        hs.push(std::thread::spawn(move || {
            let mut bad = vec![];
            for r in 0..rounds {
                let got = c16_workload(&text);
                if got != *reference {
                    let at = got.lines().zip(reference.lines()).position(|(x, y)| x != y).unwrap_or(0);
                    bad.push(format!("T5 consumer {who} round {r}: result differs from the non-overlapping execution at line {at}: `{}` vs `{}`", got.lines().nth(at).unwrap_or("").chars().take(120).collect::<String>(), reference.lines().nth(at).unwrap_or("").chars().take(120).collect::<String>()));
                }
            }
            bad
        }));
    }
    for h in hs {
        match h.join() {
            Ok(b) => bad.extend(b),
            Err(_) => println!("MICRO-NOTE subject={idx} a consumer thread panicked (C07 territory, not a C16 verdict)"),
        }
    }
    let mt = format!("{}+{}", SUBJECTS[ia].0, SUBJECTS[ib].0);
    if bad.is_empty() {
        println!("MICRO-OK subject={idx} mt={mt} fields={} rounds={rounds} consumers=3", r0.lines().last().unwrap_or(""));
    } else {
        for b in &bad {
            println!("MICRO-VIOLATION subject={idx} mt={mt} {b}");
        }
        std::process::exit(1);
    }
}

fn block_on<F: std::future::Future>(f: F) -> F::Output {
    use std::task::{Context, Poll, Wake, Waker};
    struct Noop;
    impl Wake for Noop {
        fn wake(self: Arc<Self>) {}
    }
    let w = Waker::from(Arc::new(Noop));
    let mut cx = Context::from_waker(&w);
    let mut f = std::pin::pin!(f);
    loop {
        if let Poll::Ready(v) = f.as_mut().poll(&mut cx) {
            return v;
        }
    }
}

/// the `validate_mt` plugin handler on an MT text: (valid, errors, message_type)
fn plugin_validate(text: &str) -> Result<(bool, Vec<String>), String> {
    use dataflow_rs::engine::{AsyncFunctionHandler, FunctionConfig, Message};
    let mut msg = Message::from_value(&serde_json::json!({}));
    msg.data_mut()["mt"] = serde_json::Value::String(text.to_string());
    msg.invalidate_context_cache();
    let cfg = FunctionConfig::Custom { name: "validate_mt".into(), input: serde_json::json!({"source": "mt", "target": "vr"}) };
    let h = swift_mt_message::plugin::Validate;
    block_on(h.execute(&mut msg, &cfg, Arc::new(datalogic_rs::DataLogic::new()))).map_err(|e| format!("{e:?}"))?;
    let vr = &msg.data()["vr"];
    Ok((vr["valid"].as_bool().unwrap_or(false), vr["errors"].as_array().map(|a| a.iter().map(|e| e.as_str().unwrap_or("").to_string()).collect()).unwrap_or_default()))
}

/// the `parse_mt` plugin handler on an MT text: the JSON it stores under its target
fn plugin_parse(text: &str) -> Result<String, String> {
    use dataflow_rs::engine::{AsyncFunctionHandler, FunctionConfig, Message};
    let mut msg = Message::from_value(&serde_json::json!({}));
    msg.data_mut()["mt"] = serde_json::Value::String(text.to_string());
    msg.invalidate_context_cache();
    let cfg = FunctionConfig::Custom { name: "parse_mt".into(), input: serde_json::json!({"source": "mt", "target": "out"}) };
    let h = swift_mt_message::plugin::Parse;
    block_on(h.execute(&mut msg, &cfg, Arc::new(datalogic_rs::DataLogic::new()))).map_err(|e| format!("{e:?}"))?;
    Ok(msg.data()["out"].to_string())
}

/// C15 micro mode: the plugin's verdict on a VALID published message must not depend on what other
/// threads are validating at the same moment.
fn run_c15(idx: usize, rounds: usize) {
    let valid = subjects::VALID;
    let n = valid.len();
    let (mt, good) = valid[idx % n];
    // noise: the recorded subjects with the most findings (the longer a validation spends producing
    // findings, the wider the window in which state shared between calls is exposed)
    let mut by_errs: Vec<usize> = (0..SUBJECTS.len()).collect();
    by_errs.sort_by_key(|i| std::cmp::Reverse(SUBJECTS[*i].1.split('+').count()));
    let bad_text = SUBJECTS[by_errs[idx % 4]].2;
    // cold start: the overlapping calls are the FIRST use of the library in this process (first-touch
    // initialisation happens under overlap); the un-overlapped reference is taken afterwards
    let mut bad: Vec<String> = vec![];
    let mut hs = vec![];
    {
        // a caller parsing the valid message while the others validate (O3 under overlap)
        let g = good.to_string();
        hs.push(std::thread::spawn(move || {
            let mut bad = vec![];
            let mut first: Option<Result<String, String>> = None;
            for r in 0..rounds.div_ceil(3) {
                let got = plugin_parse(&g);
                match &first {
                    None => first = Some(got),
                    Some(pr) if got != *pr => bad.push(format!("O3 parse_mt #{r} on a valid published message overlapping other calls returned something else than its first call ({} vs {} bytes)", got.as_ref().map(|s| s.len()).unwrap_or(0), pr.as_ref().map(|s| s.len()).unwrap_or(0))),
                    _ => {}
                }
            }
            (bad, first)
        }));
    }
    for who in 0..2 {
        let g = good.to_string();
        hs.push(std::thread::spawn(move || {
            let mut seen = vec![];
            for r in 0..rounds {
                seen.push(format!("validate_mt #{r} (caller {who})\u{1}{}", match plugin_validate(&g) {
                    Ok((v, e)) => format!("valid={v} errors={:?}", e.iter().take(2).collect::<Vec<_>>()),
                    Err(e) => format!("failed: {e}"),
                }));
            }
            (seen, None)
        }));
    }
    {
        let b = bad_text.to_string();
        hs.push(std::thread::spawn(move || {
            for _ in 0..rounds.div_ceil(3) {
                let _ = plugin_validate(&b);
            }
            (vec![], None)
        }));
    }
    let mut verdicts: Vec<String> = vec![];
    let mut first_parse: Option<Result<String, String>> = None;
    for h in hs {
        match h.join() {
            Ok((b, fp)) => {
                for x in b {
                    if x.contains('\u{1}') { verdicts.push(x) } else { bad.push(x) }
                }
                if fp.is_some() {
                    first_parse = fp;
                }
            }
            Err(_) => println!("MICRO-NOTE subject={idx} a caller thread panicked"),
        }
    }
    // the reference: the same calls with nothing else running, after the overlapped phase
    let reference = match plugin_validate(good) {
        Ok((v, e)) => format!("valid={v} errors={:?}", e.iter().take(2).collect::<Vec<_>>()),
        Err(e) => format!("failed: {e}"),
    };
    for v in &verdicts {
        let (who, got) = v.split_once('\u{1}').unwrap_or(("?", v));
        if got != reference {
            bad.push(format!("O2 {who} on a valid published message, overlapping other calls from a cold start, returned {got}; the same call with nothing else running returns {reference}"));
        }
    }
    if let Some(fp) = first_parse {
        let pr = plugin_parse(good);
        if fp != pr {
            bad.push(format!("O3 parse_mt on a valid published message overlapping other calls returned something else than without overlap ({} vs {} bytes)", fp.as_ref().map(|s| s.len()).unwrap_or(0), pr.as_ref().map(|s| s.len()).unwrap_or(0)));
        }
    }
    if bad.is_empty() && reference != "valid=true errors=[]" {
        println!("MICRO-SKIP subject={idx} mt={mt} the recorded valid message is not valid on this tree, with or without overlap: {reference}");
        return;
    }
    if bad.is_empty() {
        println!("MICRO-OK subject={idx} mt={mt} valid message validated {} times from a cold start while a rule-violating one was being validated rounds={rounds} callers=4", 2 * rounds);
    } else {
        for b in &bad {
            println!("MICRO-VIOLATION subject={idx} mt={mt} {b}");
        }
        std::process::exit(1);
    }
}

/// C15 publish mode: callers publish different valid messages (chosen for the kinds of amounts they carry: a
/// currency without minor unit, fractional amounts) at the same moment, from a cold start. Oracle (O3, no
/// reference needed): what a caller publishes parses back to exactly the message it published.
fn run_c15_pub(idx: usize, rounds: usize) {
    let subs = subjects::PUBLISH;
    if subs.is_empty() {
        println!("MICRO-SKIP subject={idx} mt=- no publish subjects recorded");
        return;
    }
    let hs: Vec<_> = (0..4)
        .map(|k| {
            let (class, mt, text) = subs[(idx + k) % subs.len()];
            std::thread::spawn(move || {
                let mut bad = vec![];
                let Ok(p) = SwiftParser::parse_auto(text) else { return (vec![], true) };
                let j0 = on_parsed!(&p, m => serde_json::to_value(&**m)).unwrap_or_default();
                for r in 0..rounds.max(1) {
                    let t2 = on_parsed!(&p, m => m.to_mt_message());
                    match SwiftParser::parse_auto(&t2) {
                        Ok(p2) => {
                            let j2 = on_parsed!(&p2, m => serde_json::to_value(&**m)).unwrap_or_default();
                            if j2 != j0 {
                                let line = t2.lines().zip(text.lines()).find(|(a, b)| a != b).map(|(a, b)| format!("`{a}` where the recorded text has `{b}`")).unwrap_or_default();
                                bad.push(format!("O3 caller {k} publish #{r} of a valid MT{mt} message ({class}) while other callers publish other messages: the published text does not parse back to the message ({line})"));
                            }
                        }
                        Err(e) => bad.push(format!("O1 caller {k} publish #{r} of a valid MT{mt} message ({class}) while other callers publish: the published text does not parse: {e}")),
                    }
                }
                (bad, false)
            })
        })
        .collect();
    let mut bad = vec![];
    let mut skipped = 0;
    for h in hs {
        match h.join() {
            Ok((b, skip)) => {
                bad.extend(b);
                skipped += skip as usize;
            }
            Err(_) => println!("MICRO-NOTE subject={idx} a caller thread panicked"),
        }
    }
    let mt: Vec<&str> = subs.iter().map(|s| s.1).collect();
    let mt = mt.join("+");
    if skipped == 4 {
        println!("MICRO-SKIP subject={idx} mt={mt} none of the recorded messages parses on this tree");
    } else if bad.is_empty() {
        println!("MICRO-OK subject={idx} mt={mt} 4 callers published {} messages each at once from a cold start; every text parsed back to its message", rounds.max(1));
    } else {
        for b in &bad {
            println!("MICRO-VIOLATION subject={idx} mt={mt} {b}");
        }
        std::process::exit(1);
    }
}

/// C15 cold-start mode: N callers validate the same valid published message at the same moment as the
/// very first use of the library in the process (first-touch initialisation of anything lazily built
/// happens under overlap); the reference is the same call afterwards with nothing else running.
fn run_c15_cold(idx: usize, callers: usize) {
    let valid = subjects::VALID;
    let (mt, good) = valid[idx % valid.len()];
    let verdict = |t: &str| match plugin_validate(t) {
        Ok((v, e)) => format!("valid={v} errors={:?}", e.iter().take(2).collect::<Vec<_>>()),
        Err(e) => format!("failed: {e}"),
    };
    let hs: Vec<_> = (0..callers.max(2)).map(|_| { let g = good.to_string(); std::thread::spawn(move || verdict(&g)) }).collect();
    let got: Vec<Option<String>> = hs.into_iter().map(|h| h.join().ok()).collect();
    let reference = verdict(good);
    let mut bad = vec![];
    for (who, g) in got.iter().enumerate() {
        match g {
            Some(g) if *g != reference => bad.push(format!("O2 the first validate_mt of caller {who} on a valid published message, overlapping the other callers' first calls from a cold start, returned {g}; the same call with nothing else running returns {reference}")),
            None => println!("MICRO-NOTE subject={idx} a caller thread panicked"),
            _ => {}
        }
    }
    if bad.is_empty() && reference != "valid=true errors=[]" {
        println!("MICRO-SKIP subject={idx} mt={mt} the recorded valid message is not valid on this tree, with or without overlap: {reference}");
    } else if bad.is_empty() {
        println!("MICRO-OK subject={idx} mt={mt} valid message validated by {} callers at once from a cold start", callers.max(2));
    } else {
        for b in &bad {
            println!("MICRO-VIOLATION subject={idx} mt={mt} {b}");
        }
        std::process::exit(1);
    }
}

/// C13 cold-start mode: the callers' validations are the first validations of the process and overlap
/// each other (whatever a validator builds lazily is built under overlap); the reference is taken afterwards.
fn run_c13_cold(idx: usize, callers: usize) {
    let (mt, _, text) = SUBJECTS[idx];
    let p = match SwiftParser::parse_auto(text) {
        Ok(p) => Arc::new(p),
        Err(e) => {
            println!("MICRO-SKIP subject={idx} mt={mt} does not parse on this tree: {e}");
            return;
        }
    };
    enum R {
        Full(Vec<String>),
        Stop(Vec<String>),
        Flag((bool, usize)),
    }
    let hs: Vec<_> = (0..callers.max(2))
        .map(|k| {
            let p = p.clone();
            std::thread::spawn(move || match k % 3 {
                0 => R::Full(vnr(&p, false)),
                1 => R::Stop(vnr(&p, true)),
                _ => R::Flag(swift_validate(&p)),
            })
        })
        .collect();
    let got: Vec<Option<R>> = hs.into_iter().map(|h| h.join().ok()).collect();
    let l = vnr(&p, false);
    let mut bad = vec![];
    for (who, g) in got.iter().enumerate() {
        match g {
            Some(R::Full(v)) if *v != l => bad.push(format!("I1 the first full validation of caller {who}, overlapping the other callers' first calls from a cold start, returned {} error(s); the same call with nothing else running returns {}", v.len(), l.len())),
            Some(R::Stop(v)) if !(v.len() <= l.len() && v[..] == l[..v.len()] && v.is_empty() == l.is_empty()) => bad.push(format!("I2 the first stop-on-first validation of caller {who} from a cold start is not a non-empty prefix of the full list ({} vs {})", v.len(), l.len())),
            Some(R::Flag(f)) if *f != (l.is_empty(), l.len()) => bad.push(format!("I3 the first SwiftMessage::validate of caller {who} from a cold start returned valid={} with {} error(s), the full list has {}", f.0, f.1, l.len())),
            None => println!("MICRO-NOTE subject={idx} a caller thread panicked (C07 territory, not a C13 verdict)"),
            _ => {}
        }
    }
    if bad.is_empty() {
        println!("MICRO-OK subject={idx} mt={mt} errors_in_full_list={} validated by {} callers at once from a cold start", l.len(), callers.max(2));
    } else {
        for b in &bad {
            println!("MICRO-VIOLATION subject={idx} mt={mt} {b}");
        }
        std::process::exit(1);
    }
}

fn main() {
    let mut args: Vec<String> = std::env::args().collect();
    if args.get(1).map(|s| s.as_str()) == Some("c15pub") {
        let idx: usize = args.get(2).and_then(|s| s.parse().ok()).unwrap_or(0);
        let rounds: usize = args.get(3).and_then(|s| s.parse().ok()).unwrap_or(2);
        run_c15_pub(idx, rounds);
        return;
    }
    if args.get(1).map(|s| s.as_str()) == Some("c15cold") {
        let idx: usize = args.get(2).and_then(|s| s.parse().ok()).unwrap_or(0);
        let callers: usize = args.get(3).and_then(|s| s.parse().ok()).unwrap_or(4);
        run_c15_cold(idx, callers);
        return;
    }
    if args.get(1).map(|s| s.as_str()) == Some("c15") {
        let idx: usize = args.get(2).and_then(|s| s.parse().ok()).unwrap_or(0);
        let rounds: usize = args.get(3).and_then(|s| s.parse().ok()).unwrap_or(1);
        run_c15(idx, rounds);
        return;
    }
    if args.get(1).map(|s| s.as_str()) == Some("c16") {
        let idx: usize = args.get(2).and_then(|s| s.parse().ok()).unwrap_or(0);
        let rounds: usize = args.get(3).and_then(|s| s.parse().ok()).unwrap_or(2);
        run_c16(idx, rounds);
        return;
    }
    if args.get(1).map(|s| s.as_str()) == Some("c13cold") {
        let idx: usize = args.get(2).and_then(|s| s.parse().ok()).unwrap_or(0) % SUBJECTS.len().max(1);
        let callers: usize = args.get(3).and_then(|s| s.parse().ok()).unwrap_or(4);
        run_c13_cold(idx, callers);
        return;
    }
    if args.get(1).map(|s| s.as_str()) == Some("c13") {
        args.remove(1);
    }
    let subjects = SUBJECTS;
    if args.get(1).map(|s| s.as_str()) == Some("count") {
        println!("{}", subjects.len());
        return;
    }
    let idx: usize = args.get(1).and_then(|s| s.parse().ok()).unwrap_or(0) % subjects.len().max(1);
    let rounds: usize = args.get(2).and_then(|s| s.parse().ok()).unwrap_or(3);
    let text = subjects[idx].2.to_string();
    let mt = subjects[idx].0.to_string();
    let p = match SwiftParser::parse_auto(&text) {
        Ok(p) => Arc::new(p),
        Err(e) => {
            // not a verdict: the recorded subject is no longer in the property's domain
            println!("MICRO-SKIP subject={idx} mt={mt} does not parse on this tree: {e}");
            return;
        }
    };
    // reference: the same calls without any overlap
    let l = vnr(&p, false);
    let s = vnr(&p, true);
    let v = swift_validate(&p);
    let mut bad: Vec<String> = vec![];
    if !(s.len() <= l.len() && s[..] == l[..s.len()] && s.is_empty() == l.is_empty()) || v != (l.is_empty(), l.len()) {
        // a sequential disagreement is the operation-level simulator's business; report it all the same
        bad.push(format!("I2 (already without any overlap) the entry points disagree on this subject: full={} stop={} validate={:?}", l.len(), s.len(), v));
    }
    let (l, p2) = (Arc::new(l), p.clone());
    let mut hs = vec![];
    {
        let (l, p) = (l.clone(), p2.clone());
        hs.push(std::thread::spawn(move || {
            let mut bad = vec![];
            for r in 0..rounds {
                let got = vnr(&p, false);
                if got != *l {
                    bad.push(format!("I1 full validation #{r} overlapping other calls returned {} error(s), the non-overlapping one {}", got.len(), l.len()));
                }
            }
            bad
        }));
    }
    {
        let (l, p) = (l.clone(), p2.clone());
        hs.push(std::thread::spawn(move || {
            let mut bad = vec![];
            for r in 0..rounds {
                let got = vnr(&p, true);
                let ok = got.len() <= l.len() && got[..] == l[..got.len()] && got.is_empty() == l.is_empty();
                if !ok {
                    bad.push(format!("I2 stop-on-first validation #{r} overlapping other calls is not a non-empty prefix of the full list ({} vs {})", got.len(), l.len()));
                }
            }
            bad
        }));
    }
    {
        let (l, p) = (l.clone(), p2.clone());
        hs.push(std::thread::spawn(move || {
            let mut bad = vec![];
            for r in 0..rounds {
                let got = swift_validate(&p);
                if got != (l.is_empty(), l.len()) {
                    bad.push(format!("I3 SwiftMessage::validate #{r} overlapping other calls returned valid={} with {} error(s), the full list has {}", got.0, got.1, l.len()));
                }
            }
            bad
        }));
    }
    // a fourth caller for short subjects: the validate_mt plugin handler on the subject's text (I5 under overlap)
    let mut callers = 3;
    if text.len() <= 520 {
        callers = 4;
        let (l, t) = (l.clone(), text.clone());
        hs.push(std::thread::spawn(move || {
            let mut bad = vec![];
            match plugin_validate(&t) {
                Ok((valid, errs)) => {
                    if valid != l.is_empty() || errs.len() != l.len() {
                        bad.push(format!("I5 validate_mt plugin overlapping other calls returned valid={valid} with {} error(s), the full list has {}", errs.len(), l.len()));
                    }
                }
                Err(e) => bad.push(format!("I5 validate_mt plugin failed on a parseable message: {e}")),
            }
            bad
        }));
    }
    for h in hs {
        match h.join() {
            Ok(b) => bad.extend(b),
            Err(_) => println!("MICRO-NOTE subject={idx} a caller thread panicked (C07 territory, not a C13 verdict)"),
        }
    }
    if bad.is_empty() {
        println!("MICRO-OK subject={idx} mt={mt} errors_in_full_list={} rounds={rounds} callers={callers}", l.len());
    } else {
        for b in &bad {
            println!("MICRO-VIOLATION subject={idx} mt={mt} {b}");
        }
        std::process::exit(1);
    }
}
