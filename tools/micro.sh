#!/usr/bin/env bash
# tools/micro.sh run <C13|C15|C16> <quick|thorough> <out.json>   micro-schedule tier (Miri as the scheduler)
# tools/micro.sh replay <replay.json>
# One line of the pairs file (subject, seed, mode, rounds) = one Miri execution = one exactly repeatable
# interleaving of overlapping calls. Modes (miri/src/main.rs): c13 (full, stop-on-first, SwiftMessage::validate and
# the plugin on one shared message), c13cold / c15cold (four callers' FIRST calls of the process overlap),
# c15 (validate_mt / parse_mt on a valid message next to a rule-violating one), c15pub (four callers publish), c16.
set -u
HERE="$(cd "$(dirname "${BASH_SOURCE[0]}")/.." && pwd)"
cd "$HERE/miri" || exit 2
export CARGO_NET_OFFLINE=true
RATE="${MTMIRI_PREEMPTION_RATE:-}"   # empty = per-run schedule 0.001 / 0.01 / 0.05 (coarse to fine interleavings)
ROUNDS="${MTMIRI_ROUNDS:-2}"
MODE="${MTMIRI_MODE:-c13}"
rate_of() { # subject seed -> preemption rate of that run
  if [ -n "$RATE" ]; then echo "$RATE"; elif [ "$MODE" = c15 ]; then case $(( ($1 + $2) % 3 )) in 0) echo 0.02;; 1) echo 0.01;; *) echo 0.05;; esac; # cold-start windows are a few dozen basic blocks wide
  else case $(( ($1 + $2) % 3 )) in 0) echo 0.001;; 1) echo 0.01;; *) echo 0.05;; esac; fi
}
one() { # subject seed [rate] -> prints the program's MICRO-* lines, returns its exit code
  local r="${3:-$(rate_of "$1" "$2")}"
  MIRIFLAGS="-Zmiri-seed=$2 -Zmiri-preemption-rate=$r" cargo +nightly miri run --offline -q -- "$MODE" "$1" "$ROUNDS" 2>&1
}
case "${1:-}" in
 replay)
  f="${2:?replay file}"
  s=$(python3 -c "import json;r=json.load(open('$f'));print(r['subject'],r['seed'],r.get('preemption_rate','0.05'),r.get('rounds',3),r.get('mode','c13'),r.get('property','C13'))") || exit 2
  set -- $s; RATE="$3"; ROUNDS="$4"; MODE="$5"; PROP="$6"
  echo "replaying micro-schedule run: mode=$MODE subject=$1 miri seed=$2 preemption rate=$RATE rounds=$ROUNDS"
  out="$(one "$1" "$2" "$RATE")"; echo "$out" | grep -E '^MICRO-' 
  if echo "$out" | grep -q '^MICRO-VIOLATION'; then echo "VIOLATION property=$PROP replay=$f"; exit 1; fi
  if echo "$out" | grep -qE '^MICRO-(OK|SKIP)'; then echo "replay: no violation — the recorded violation does not occur on this tree"; exit 0; fi
  echo "HARNESS-ERROR: miri run gave no verdict"; echo "$out" | tail -20; exit 2;;
 run)
  PROP="${2:?property}"; tier="${3:-quick}"; outj="${4:?out json}"
  case "$PROP" in C16) MODE=c16; ROUNDS="${MTMIRI_ROUNDS:-1}";; C15) MODE=c15; ROUNDS="${MTMIRI_ROUNDS:-3}";; *) MODE=c13;; esac
  t0=$(date +%s.%N)
  # build once (also proves the toolchain works); a failure here is a harness error
  n=$(cargo +nightly miri run --offline -q -- count 2>"$HERE/sim/miri-build.log" | tail -1)
  if ! [[ "$n" =~ ^[0-9]+$ ]]; then echo "HARNESS-ERROR: mtmiri does not build/run under miri (see sim/miri-build.log)"; tail -20 "$HERE/sim/miri-build.log"; exit 2; fi
  base="${VERIF_SEED:-20250917}"
  if [ "$tier" = thorough ]; then nseeds="${MTMIRI_SEEDS:-16}"; else nseeds="${MTMIRI_SEEDS:-1}"; fi
  if [ "$PROP" = C16 ]; then n=$(( n < 10 ? n : 10 )); [ "$tier" = thorough ] || n=6; [ "$tier" = thorough ] && nseeds="${MTMIRI_SEEDS:-8}"; fi
  if [ "$PROP" = C15 ]; then n=10; [ "$tier" = thorough ] || n=6; [ "$tier" = thorough ] && nseeds="${MTMIRI_SEEDS:-16}"; fi
  tmp="$(mktemp -d "$HERE/work/micro.XXXXXX")"
  export -f one rate_of; export RATE ROUNDS MODE
  for ((s=0; s<n; s++)); do for ((k=0; k<nseeds; k++)); do echo "$s $(( (base % 100000) * 64 + s * 131 + k ))"; done; done > "$tmp/pairs"
  # C15 quick: 16 cold starts (4 callers at once: 8 for MT103, 4 for MT101, one for each other subject) one mixed run per subject, six publish runs
  if [ "$PROP" = C15 ] && [ "$tier" != thorough ] && [ -z "${MTMIRI_SEEDS:-}" ]; then
    { for ((s=0; s<n; s++)); do k_max=1; [ $s -eq 0 ] && k_max=8; [ $s -eq 1 ] && k_max=4; for ((k=0; k<k_max; k++)); do echo "$s $(( (base % 100000) * 64 + s * 131 + k )) c15cold 4"; done; done
      for ((s=0; s<n; s++)); do echo "$s $(( (base % 100000) * 64 + s * 131 + 97 )) c15 $ROUNDS"; done
      # publish mode: four callers publish messages with different kinds of amounts at once, from a cold start
      for ((k=0; k<6; k++)); do echo "$k $(( (base % 100000) * 64 + 7001 + k )) c15pub 1"; done; } > "$tmp/pairs"
  fi
  # C13: every subject additionally gets cold starts (4 callers' first validations at once): one in quick, as many as mixed runs in thorough
  if [ "$PROP" != C15 ] && [ "$PROP" != C16 ]; then
    awk -v r="$ROUNDS" -v t="$tier" '{print $1, $2, "c13", r; if (t == "thorough" || !seen[$1]++) print $1, $2 + 7919, "c13cold", 4}' "$tmp/pairs" > "$tmp/pairs2" && mv "$tmp/pairs2" "$tmp/pairs"
  fi
  # C15 thorough: every subject additionally gets as many cold starts (4 callers at once) as it gets mixed runs
  if [ "$PROP" = C15 ] && [ "$tier" = thorough ]; then
    awk -v r="$ROUNDS" '{print $1, $2, "c15", r; print $1, $2 + 7919, "c15cold", 4; if (NR <= 64) print NR, $2 + 104729, "c15pub", 2}' "$tmp/pairs" > "$tmp/pairs2" && mv "$tmp/pairs2" "$tmp/pairs"
  fi
  # 16 interpreters at a time
  xargs -P 16 -L 1 bash -c 'MODE="${2:-$MODE}"; ROUNDS="${3:-$ROUNDS}"; out="$(one "$0" "$1")"; rc=$?; echo "$out" | grep -E "^MICRO-" | sed "s/^/seed=$1 rate=$(rate_of "$0" "$1") mode=$MODE rounds=$ROUNDS /" ; if [ $rc -ne 0 ] && ! echo "$out" | grep -q "^MICRO-VIOLATION"; then if echo "$out" | grep -q "unsupported operation"; then echo "seed=$1 MICRO-UNSUPPORTED subject=$0 $(echo "$out" | grep -m1 "unsupported operation" | cut -c1-160)"; else echo "seed=$1 MICRO-ABORT subject=$0 rc=$rc $(echo "$out" | grep -m1 -E "^error" | cut -c1-200)"; fi; fi' < "$tmp/pairs" > "$tmp/out" 2>&1
  t1=$(date +%s.%N)
  python3 - "$tmp/out" "$outj" "$n" "$nseeds" "$RATE" "$ROUNDS" "$HERE" "$(echo "$t1 - $t0" | bc)" "$PROP" "$MODE" <<'PY'
import sys, json, re, os
out, outj, n, nseeds, rate, rounds, here, wall, prop, mode = sys.argv[1:11]
ok = skip = 0; viol = []; harness = []; samples = []; bad_runs = set(); unsupported = []; aborted = []
for l in open(out):
    m = re.match(r"seed=(\d+) (?:rate=(\S+) )?(?:mode=(\S+) rounds=(\d+) )?(MICRO-\w+) subject=(\d+)(.*)", l.strip())
    if not m: continue
    seed, run_rate, run_mode, run_rounds, kind, subj, rest = int(m.group(1)), (m.group(2) or rate), (m.group(3) or mode), int(m.group(4) or rounds), m.group(5), int(m.group(6)), m.group(7).strip()
    if kind == "MICRO-OK":
        ok += 1
        if len(samples) < 3: samples.append({"subject": subj, "miri_seed": seed, "result": rest})
    elif kind == "MICRO-SKIP": skip += 1
    elif kind == "MICRO-VIOLATION": viol.append((subj, seed, rest, run_rate, run_mode, run_rounds)); bad_runs.add((subj, seed))
    elif kind == "MICRO-UNSUPPORTED": unsupported.append(l.strip())
    elif kind == "MICRO-ABORT": aborted.append(l.strip())
reported = {}
for subj, seed, rest, run_rate, run_mode, run_rounds in sorted(viol):
    mt = re.search(r"mt=([\w+]+)", rest); inv = re.search(r"\b([ITO][0-9])\b", rest)
    seq = "already without any overlap" in rest
    cls = f"{prop}/micro {inv.group(1) if inv else 'I?'} MT{mt.group(1) if mt else '?'} " + ("disagreement on a recorded subject" if seq else "result depends on overlapping calls")
    if cls in reported: reported[cls]["runs"] += 1; continue
    path = os.path.join(here, "replays", f"{prop}-micro-s{subj}-seed{seed}.json")
    os.makedirs(os.path.dirname(path), exist_ok=True)
    json.dump({"format": "mtmiri-replay-1", "property": prop, "mode": run_mode, "engine": "micro-schedule", "subject": subj, "seed": seed,
               "preemption_rate": run_rate, "rounds": run_rounds, "expect_class": cls, "expect_detail": rest}, open(path, "w"), indent=1)
    reported[cls] = {"class": cls, "detail": rest, "replay": path, "runs": 1}
total_runs = sum(1 for _ in open(os.path.join(os.path.dirname(out), "pairs")))
# a run the interpreter could not finish gives no verdict (the code under test performed an operation Miri does not
# support in isolation, e.g. read the wall clock, or Miri itself aborted); that is reported, not fatal — unless no
# run at all got as far as that, which means the stage itself is broken (toolchain, build)
if ok + len(bad_runs) + skip + len(unsupported) == 0:
    harness.append(f"no micro-schedule run produced a verdict ({len(unsupported)} unsupported, {len(aborted)} aborted): " + " | ".join((unsupported + aborted)[:2]))
json.dump({"subjects": int(n), "seeds_per_subject": int(nseeds), "interleavings_executed": ok + len(bad_runs), "violating_interleavings": len(bad_runs), "ok": ok, "skipped_subjects_not_parsing": skip, "runs_without_verdict_unsupported_operation": len(unsupported), "runs_without_verdict_interpreter_abort": len(aborted), "no_verdict_samples": (unsupported + aborted)[:3],
           "preemption_rates": (rate or ("0.01 / 0.02 / 0.05 by run" if mode == "c15" else "0.001 / 0.01 / 0.05 by run")), "rounds_per_caller": int(rounds), "callers": 3, "property": prop, "wall_s": float(wall), "violations": list(reported.values()),
           "harness_errors": harness[:5], "samples": samples,
           "components": {"real": ["swift-mt-message (parser, validators, field-map tokeniser, finders, sequence splitting), interpreted by Miri"], "stub": ["thread scheduler: Miri's seeded preemptive scheduler", "entropy and clock: Miri's deterministic shims"]}},
          open(outj, "w"), indent=1)
print(f"micro-schedule: {ok + len(bad_runs)} interleavings over {n} subjects x {nseeds} seeds, {len(bad_runs)} violating, {skip} skipped, {len(unsupported) + len(aborted)} without verdict, {len(harness)} harness errors, {float(wall):.1f}s")
PY
  rm -rf "$tmp";;
 *) echo "usage: $0 run <C13|C15|C16> <tier> <out.json> | replay <file>"; exit 2;;
esac
