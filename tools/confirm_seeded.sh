#!/usr/bin/env bash
# tools/confirm_seeded.sh <agent-out-dir> <1|2> <seeded-id> <test-name> [extra test args]
# Confirms a seeded change in the scratch worktree /tmp/wt/own (never in /repo):
#   (1) with the change the full existing suite passes, (2) the demonstration fails with it,
#   (3) the demonstration passes without it. Writes /verif/seeded/<id>/{patch.diff,demo.rs,confirm.log}.
set -u
src="$1"; n="$2"; id="$3"; tname="$4"; shift 4; extra="$*"
WT=/tmp/wt/own
dst=/verif/seeded/$id; mkdir -p "$dst"
cp "$src/change$n.diff" "$dst/patch.diff"; cp "$src/demo$n.rs" "$dst/demo.rs"
cd $WT && git checkout -q -- . && git clean -fdq tests examples
log="$dst/confirm.log"; : > "$log"
git apply "$dst/patch.diff" || { echo "APPLY-FAIL" | tee -a "$log"; exit 2; }
out=$(cargo test --workspace --no-fail-fast --offline 2>&1); 
if echo "$out" | grep -qE "^error|test result: FAILED|error: test failed"; then echo "suite_with_change=FAIL" | tee -a "$log"; echo "$out" | grep -E "FAILED|^error" | head -5 | tee -a "$log"; else echo "suite_with_change=pass ($(echo "$out" | grep -E '^test result: ok' | awk '{s+=$4} END{print s}') tests incl. doctests)" | tee -a "$log"; fi
cp "$dst/demo.rs" tests/$tname.rs
out=$(cargo test ${CARGO_EXTRA:-} --offline --test $tname -- $extra 2>&1); if echo "$out" | grep -qE "test result: FAILED|error: test failed"; then echo "demo_with_change=fails (expected)" | tee -a "$log"; else echo "demo_with_change=PASSES (unexpected)" | tee -a "$log"; fi
echo "$out" | grep -E "^test |panicked" | head -8 >> "$log"
git apply -R "$dst/patch.diff"
out=$(cargo test ${CARGO_EXTRA:-} --offline --test $tname -- $extra 2>&1); if echo "$out" | grep -qE "test result: ok" && ! echo "$out" | grep -qE "test result: FAILED"; then echo "demo_without_change=passes (expected)" | tee -a "$log"; else echo "demo_without_change=FAILS (unexpected)" | tee -a "$log"; fi
rm -f tests/$tname.rs; git checkout -q -- . ; git status --short | head -3
