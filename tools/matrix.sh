#!/usr/bin/env bash
# tools/matrix.sh [quick|thorough] [dir...]   runs every seeded/ and sensitivity/ change against its
# property's check and writes one line per change to stdout (markdown table rows).
tier="${1:-quick}"; shift
dirs="${@:-/verif/seeded/*/ /verif/sensitivity/*.diff}"
for d in $dirs; do
  if [ -d "$d" ]; then patch="$d/patch.diff"; id="$(basename "$d")"; prop="$(python3 -c "import json;print(json.load(open('$d/meta.json'))['property'])")";
  else patch="$d"; id="$(basename "$d" .diff)"; prop="$(echo "$id" | sed -E 's/^s[0-9]+-(c[0-9]+)-.*/\1/' | tr a-z A-Z)"; fi
  [ -f "$patch" ] || continue
  out="$(TIER=$tier SHOW=40 /verif/tools/try_patch.sh "$patch" "$prop" 2>&1)"
  ex="$(echo "$out" | grep -oE 'exit=[0-9]+' | head -1)"
  classes="$(echo "$out" | grep -E '^  class:' | sed -E 's/^  class: //; s/   \(/ (/' | head -3 | tr '\n' ';' )"
  echo "| $id | $prop | $tier | $ex | ${classes:-–} |"
done
