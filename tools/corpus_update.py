#!/usr/bin/env python3
"""tools/corpus_update.py [C13|C15 ...]
Curates work/corpus_candidates/<prop>-<tier>.jsonl (written by clean runs of ./check) into the
committed regression corpus corpus/<prop>.jsonl: at most PER_KEY explicit specs per harvest key
(rare condition reached), existing entries kept first. Never run by a check."""
import json, sys, os, glob, collections
ROOT = os.path.dirname(os.path.dirname(os.path.abspath(__file__)))
PER_KEY = {"C13": 1, "C15": 2, "C16": 1}
props = sys.argv[1:] or ["C13", "C15"]
for prop in props:
    path = os.path.join(ROOT, "corpus", f"{prop}.jsonl")
    os.makedirs(os.path.dirname(path), exist_ok=True)
    by_key = collections.OrderedDict()
    if os.path.exists(path):
        for l in open(path):
            e = json.loads(l); by_key.setdefault(e["key"], []).append(e)
    added = 0
    for f in sorted(glob.glob(os.path.join(ROOT, "work", "corpus_candidates", f"{prop}-*.jsonl"))):
        for l in open(f):
            e = json.loads(l)
            cur = by_key.setdefault(e["key"], [])
            # in-memory (typed) subjects: three specs per key — the key does not say WHICH occurrence of a repeated field a finding is about
            cap = 3 if "|typed" in e["key"] else PER_KEY.get(prop, 1)
            if len(cur) < cap and all(c["spec"] != e["spec"] for c in cur):
                cur.append({"key": e["key"], "spec": e["spec"]}); added += 1
    with open(path, "w") as out:
        for k in sorted(by_key):
            for e in by_key[k]:
                out.write(json.dumps(e, sort_keys=True) + "\n")
    print(f"{prop}: {len(by_key)} keys, {sum(len(v) for v in by_key.values())} entries (+{added})")

# scenario digests (FNV-1a 64 of the file text, as computed by mtsim): a file whose digest differs
# at check time is explored much deeper by the C15 check (change-aware budget)
def fnv(b):
    h = 0xcbf29ce484222325
    for x in b:
        h ^= x; h = (h * 0x100000001b3) & 0xFFFFFFFFFFFFFFFF
    return f"{h:016x}"
dig = {}
base = "/repo/test_scenarios"
for d in sorted(os.listdir(base)):
    if d.startswith("mt") and os.path.isdir(os.path.join(base, d)):
        for f in sorted(os.listdir(os.path.join(base, d))):
            if f.endswith(".json") and f != "index.json":
                dig[f"{d}/{f}"] = fnv(open(os.path.join(base, d, f), "rb").read())
json.dump(dig, open(os.path.join(ROOT, "corpus", "scenario_digests.json"), "w"), indent=0, sort_keys=True)
print(f"scenario_digests.json: {len(dig)} files")
