#!/usr/bin/env bash
# tools/try_patch.sh <patch.diff> <C13|C15|C16>...   (TIER=quick|thorough, default quick)
# Applies a seeded change to /repo, runs the named checks against it, and undoes it
# straight afterwards. Evidence of these runs goes to a scratch directory, never to
# /verif/evidence. Prints one line per check: exit code and violation classes.
set -u
patch="$(realpath "$1")"; shift
if ! git -C /repo diff --quiet || [ -n "$(git -C /repo status --porcelain --untracked-files=no)" ]; then echo "refusing: /repo has local edits"; exit 2; fi
git -C /repo apply "$patch" || { echo "patch does not apply"; exit 2; }
undo() { git -C /repo apply -R "$patch" 2>/dev/null || git -C /repo checkout -- . ; }
trap undo EXIT
scratch="$(mktemp -d /tmp/try_patch.XXXXXX)"
export MTSIM_EVIDENCE_DIR="$scratch"
rc=0
for p in "$@"; do
  /verif/check "$p" "${TIER:-quick}" >"$scratch/$p.log" 2>&1; e=$?
  echo "$p exit=$e violation_lines=$(grep -c '^VIOLATION' "$scratch/$p.log")"
  grep -E '^(VIOLATION|  class|HARNESS)' "$scratch/$p.log" | head -${SHOW:-8}
  [ $e -ne 0 ] && rc=$e
done
echo "logs: $scratch"
exit $rc
