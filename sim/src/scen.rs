//! Scenario files shipped with the library: read once by the harness, handed to
//! the system under test as JSON values.

use crate::util::fnv;
use serde_json::Value;
use std::path::PathBuf;

#[derive(Clone)]
pub struct Scenario {
    /// e.g. "mt103/standard.json"
    pub rel: String,
    /// e.g. "103"
    pub mt: String,
    /// file stem, e.g. "standard"
    pub name: String,
    pub value: Value,
    pub digest: u64,
}

pub fn repo_root() -> PathBuf {
    PathBuf::from(std::env::var("MTSIM_REPO").unwrap_or_else(|_| "/repo".into()))
}

pub fn scenario_root() -> PathBuf {
    repo_root().join("test_scenarios")
}

/// All `test_scenarios/mt*/*.json` except `index.json`, sorted.
pub fn load_all() -> Result<Vec<Scenario>, String> {
    let root = scenario_root();
    let mut dirs: Vec<PathBuf> = std::fs::read_dir(&root)
        .map_err(|e| format!("read_dir {}: {e}", root.display()))?
        .flatten()
        .map(|e| e.path())
        .filter(|p| p.is_dir())
        .collect();
    dirs.sort();
    let mut out = vec![];
    for d in dirs {
        let dn = d.file_name().unwrap().to_string_lossy().to_string();
        let Some(mt) = dn.strip_prefix("mt") else { continue };
        let mut files: Vec<PathBuf> = std::fs::read_dir(&d)
            .map_err(|e| format!("read_dir {}: {e}", d.display()))?
            .flatten()
            .map(|e| e.path())
            .filter(|p| {
                p.extension().and_then(|s| s.to_str()) == Some("json")
                    && p.file_stem().and_then(|s| s.to_str()) != Some("index")
            })
            .collect();
        files.sort();
        for f in files {
            let text = std::fs::read_to_string(&f).map_err(|e| format!("{}: {e}", f.display()))?;
            let value: Value =
                serde_json::from_str(&text).map_err(|e| format!("{}: {e}", f.display()))?;
            out.push(Scenario {
                rel: format!("{dn}/{}", f.file_name().unwrap().to_string_lossy()),
                mt: mt.to_string(),
                name: f.file_stem().unwrap().to_string_lossy().to_string(),
                value,
                digest: fnv(text.as_bytes()),
            });
        }
    }
    if out.is_empty() {
        return Err(format!("no scenario files under {}", root.display()));
    }
    Ok(out)
}

pub fn find<'a>(all: &'a [Scenario], rel: &str) -> Option<&'a Scenario> {
    all.iter().find(|s| s.rel == rel)
}
