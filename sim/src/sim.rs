//! Common run vocabulary: clock configuration, outcome, violation, engine trait.

use crate::scen::Scenario;
use crate::seam::{self, JumpAt, RunCtx, ns_of, DAY_NS, NS};
use crate::util::{fnv_str, Sm};
use serde::{de::DeserializeOwned, Deserialize, Serialize};
use std::collections::BTreeMap;
use std::sync::atomic::Ordering::Relaxed;
use std::sync::Arc;

pub struct Env {
    pub scenarios: Vec<Scenario>,
    /// per message type: the JSON keys its body accepts (the `rename = "…"` literals of
    /// src/messages/mt<type>.rs) — workload guidance only: lets the C13 mutator add fields that
    /// no shipped scenario of the type carries
    pub vocab: BTreeMap<String, Vec<String>>,
    /// names of the environment variables the library's source reads (`env::var("…")` /
    /// `var_os("…")` literals under src/), except SWIFT_SCENARIO_PATH which the C15 sample path
    /// drives itself — configuration space the simulator can put faults into
    pub env_names: Vec<String>,
}

/// Values an environment variable of unknown meaning is set to: a flag, a writable file, a sink
/// that accepts an open but fails every write with ENOSPC (disk full), a path that cannot be opened.
pub const ENV_FAULT_VALUES: &[&str] = &["1", "/dev/null", "/dev/full", "/nonexistent-dir/mtsim/x", "0"];

/// Applies an environment fault for the duration of a run (the worker executes one run at a time).
pub fn apply_env_fault(env: &Env, fault: Option<(usize, usize)>) -> Option<String> {
    let (n, v) = fault?;
    if env.env_names.is_empty() {
        return None;
    }
    let name = &env.env_names[n % env.env_names.len()];
    unsafe { std::env::set_var(name, ENV_FAULT_VALUES[v % ENV_FAULT_VALUES.len()]) };
    Some(name.clone())
}

pub fn clear_env_fault(name: Option<String>) {
    if let Some(n) = name {
        unsafe { std::env::remove_var(n) };
    }
}

impl Env {
    pub fn load() -> Result<Env, String> {
        let scenarios = crate::scen::load_all()?;
        let mut vocab: BTreeMap<String, Vec<String>> = BTreeMap::new();
        let mut types: Vec<String> = scenarios.iter().map(|s| s.mt.clone()).collect();
        types.sort();
        types.dedup();
        for mt in types {
            let path = crate::scen::repo_root().join("src").join("messages").join(format!("mt{mt}.rs"));
            let mut keys: Vec<String> = vec![];
            if let Ok(src) = std::fs::read_to_string(&path) {
                let mut rest = src.as_str();
                while let Some(p) = rest.find("rename = \"") {
                    let tail = &rest[p + 10..];
                    if let Some(q) = tail.find('"') {
                        let k = &tail[..q];
                        if !k.is_empty() && k.len() <= 6 && k != "#" && !keys.iter().any(|x| x == k) {
                            keys.push(k.to_string());
                        }
                        rest = &tail[q..];
                    } else {
                        break;
                    }
                }
            }
            vocab.insert(mt, keys);
        }
        // environment variables named in the source
        let mut env_names: Vec<String> = vec![];
        fn walk(dir: &std::path::Path, out: &mut Vec<String>) {
            let Ok(rd) = std::fs::read_dir(dir) else { return };
            let mut entries: Vec<_> = rd.flatten().map(|e| e.path()).collect();
            entries.sort();
            for p in entries {
                if p.is_dir() {
                    walk(&p, out);
                } else if p.extension().and_then(|s| s.to_str()) == Some("rs") {
                    if let Ok(src) = std::fs::read_to_string(&p) {
                        for pat in ["var(\"", "var_os(\""] {
                            let mut rest = src.as_str();
                            while let Some(i) = rest.find(pat) {
                                let tail = &rest[i + pat.len()..];
                                if let Some(q) = tail.find('"') {
                                    let name = &tail[..q];
                                    if !name.is_empty() && name.len() < 64 && name.chars().all(|c| c.is_ascii_uppercase() || c.is_ascii_digit() || c == '_') && name != "SWIFT_SCENARIO_PATH" && !out.iter().any(|x| x == name) {
                                        out.push(name.to_string());
                                    }
                                    rest = &tail[q..];
                                } else {
                                    break;
                                }
                            }
                        }
                    }
                }
            }
        }
        walk(&crate::scen::repo_root().join("src"), &mut env_names);
        Ok(Env { scenarios, vocab, env_names })
    }
}

/// The window in which "today" can be written as YYMMDD and read back as the
/// same day by every decoder of the library (DESIGN §5 C15).
pub fn window_lo() -> i64 {
    ns_of(2000, 1, 1, 0, 0, 0, 0)
}
pub fn window_hi() -> i64 {
    ns_of(2049, 12, 31, 23, 59, 59, 999_999_999)
}

#[derive(Serialize, Deserialize, Clone, Debug, PartialEq)]
pub struct ClockCfg {
    pub class: String,
    pub start_ns: i64,
    pub tick_ns: i64,
    pub lo_ns: i64,
    pub hi_ns: i64,
    /// (at_read, delta_ns): jump fired when the at_read-th wall clock read happens
    pub jumps: Vec<(u64, i64)>,
    /// tick of the simulated monotonic clock per read (0 = default 1 µs); large = slow/stalled node
    #[serde(default)]
    pub mono_tick_ns: i64,
}

impl ClockCfg {
    pub fn plain() -> ClockCfg {
        ClockCfg {
            class: "plain".into(),
            start_ns: ns_of(2026, 10, 2, 12, 0, 0, 0),
            tick_ns: 1_000_000,
            lo_ns: window_lo(),
            hi_ns: window_hi(),
            jumps: vec![],
            mono_tick_ns: 0,
        }
    }
    pub fn ctx(&self, entropy_seed: u64) -> Arc<RunCtx> {
        let c = self.ctx_inner(entropy_seed);
        if self.mono_tick_ns > 0 {
            c.set_mono_tick(self.mono_tick_ns);
        }
        c
    }
    fn ctx_inner(&self, entropy_seed: u64) -> Arc<RunCtx> {
        RunCtx::new(
            entropy_seed,
            self.start_ns,
            self.tick_ns,
            self.lo_ns,
            self.hi_ns,
            self.jumps.iter().map(|(a, d)| JumpAt { at_read: *a, delta_ns: *d }).collect(),
        )
    }
    pub fn describe(&self) -> String {
        format!(
            "clock[{}] start={} tick={}ns jumps={:?}",
            self.class,
            seam::fmt_ns(self.start_ns),
            self.tick_ns,
            self.jumps
        )
    }
}

pub const N_CLOCK_CLASSES: usize = 16;

fn is_leap(y: i64) -> bool {
    (y % 4 == 0 && y % 100 != 0) || y % 400 == 0
}
fn month_len(y: i64, m: u32) -> u32 {
    match m {
        1 | 3 | 5 | 7 | 8 | 10 | 12 => 31,
        4 | 6 | 9 | 11 => 30,
        _ => if is_leap(y) { 29 } else { 28 },
    }
}

/// Swarm-style clock configuration: `class` selects the kind of clock fault the
/// run is biased to, `r` draws the details.
pub fn gen_clock(class: usize, ladder: u64, r: &mut Sm) -> ClockCfg {
    let lo = window_lo();
    let hi = window_hi();
    let small_tick = |r: &mut Sm| *r.pick(&[1_000i64, 1_000_000, 7_000_000, 250_000_000, NS]);
    let mut c = ClockCfg { class: String::new(), start_ns: 0, tick_ns: 1_000_000, lo_ns: lo, hi_ns: hi, jumps: vec![], mono_tick_ns: 0 };
    // monotonic clock speed: mostly fast, sometimes a slow or stalled node (10 ms … 10 s per read)
    c.mono_tick_ns = *r.pick(&[1_000i64, 1_000, 1_000, 50_000, 1_000_000, 20_000_000, 300_000_000, 10_000_000_000]);
    match class % N_CLOCK_CLASSES {
        0 => {
            c.class = "today".into();
            c.start_ns = ns_of(2026, 10, 2, 0, 0, 0, 0) + r.range_i64(0, DAY_NS - 1);
            c.tick_ns = small_tick(r);
        }
        1 => {
            c.class = "uniform".into();
            c.start_ns = r.range_i64(lo, hi);
            c.tick_ns = small_tick(r);
        }
        2 => {
            c.class = "leap-day".into();
            let y = 2000 + 4 * r.range_i64(0, 12);
            c.start_ns = ns_of(y, 2, 29, 0, 0, 0, 0) + r.range_i64(0, DAY_NS - 1);
            c.tick_ns = *r.pick(&[1_000_000i64, NS, 3600 * NS]);
        }
        3 => {
            c.class = "month-end-crossing".into();
            let y = r.range_i64(2000, 2049);
            let m = r.range_i64(1, 12) as u32;
            c.start_ns = ns_of(y, m, month_len(y, m), 23, 59, 59, 990_000_000 + r.range_i64(0, 9_000_000));
            c.tick_ns = *r.pick(&[1_000_000i64, 3_000_000, 500_000_000]);
        }
        4 => {
            c.class = "new-year-crossing".into();
            let y = r.range_i64(2000, 2048);
            c.start_ns = ns_of(y, 12, 31, 23, 59, 59, 990_000_000 + r.range_i64(0, 9_000_000));
            c.tick_ns = *r.pick(&[1_000_000i64, 3_000_000, 500_000_000]);
        }
        5 => {
            c.class = "ladder-jan1".into();
            c.start_ns = ns_of(2000 + (ladder % 50) as i64, 1, 1, 0, 0, 0, 0) + r.range_i64(0, DAY_NS - 1);
            c.tick_ns = small_tick(r);
        }
        6 => {
            c.class = "ladder-dec31".into();
            c.start_ns = ns_of(2000 + (ladder % 50) as i64, 12, 31, 0, 0, 0, 0) + r.range_i64(0, DAY_NS - 2 * NS);
            c.tick_ns = *r.pick(&[1_000i64, 1_000_000]);
        }
        7 => {
            c.class = "edge-lo".into();
            c.start_ns = lo;
            c.tick_ns = *r.pick(&[0i64, 1, 1_000_000, NS]);
        }
        8 => {
            c.class = "edge-hi".into();
            c.start_ns = hi - r.range_i64(0, 2 * NS);
            c.tick_ns = *r.pick(&[1_000i64, 1_000_000, 100_000_000]);
        }
        9 => {
            c.class = "tick-1day".into();
            c.start_ns = r.range_i64(lo, hi - 400 * DAY_NS);
            c.tick_ns = DAY_NS + r.range_i64(0, 3600 * NS);
        }
        10 => {
            c.class = "tick-40days".into();
            c.start_ns = r.range_i64(lo, hi - 4000 * DAY_NS);
            c.tick_ns = 40 * DAY_NS + r.range_i64(0, DAY_NS);
        }
        11 => {
            c.class = "tick-400days".into();
            c.start_ns = r.range_i64(lo, hi);
            c.tick_ns = 400 * DAY_NS;
        }
        12 => {
            c.class = "jump-forward".into();
            c.start_ns = r.range_i64(lo, hi);
            c.tick_ns = small_tick(r);
            for _ in 0..1 + r.below(3) {
                let d = *r.pick(&[3600 * NS, DAY_NS, 31 * DAY_NS, 366 * DAY_NS, 3653 * DAY_NS]);
                c.jumps.push((1 + r.below(24) as u64, d + r.range_i64(0, d)));
            }
        }
        13 => {
            c.class = "jump-backward".into();
            c.start_ns = r.range_i64(lo, hi);
            c.tick_ns = small_tick(r);
            for _ in 0..1 + r.below(3) {
                let d = *r.pick(&[NS, 3600 * NS, DAY_NS, 31 * DAY_NS, 366 * DAY_NS]);
                c.jumps.push((1 + r.below(24) as u64, -(d + r.range_i64(0, d))));
            }
        }
        14 => {
            c.class = "jump-mixed".into();
            c.start_ns = r.range_i64(lo, hi);
            c.tick_ns = small_tick(r);
            for _ in 0..2 + r.below(4) {
                let d = *r.pick(&[NS, 3600 * NS, DAY_NS, 31 * DAY_NS, 366 * DAY_NS, 3653 * DAY_NS]);
                let s = if r.chance(1, 2) { 1 } else { -1 };
                c.jumps.push((1 + r.below(24) as u64, s * (d + r.range_i64(0, d))));
            }
        }
        _ => {
            c.class = "swarm".into();
            c.start_ns = r.range_i64(lo, hi);
            c.tick_ns = *r.pick(&[0i64, 1, 1_000, 1_000_000, NS, 3600 * NS, DAY_NS, 35 * DAY_NS]);
            for _ in 0..r.below(4) {
                c.jumps.push((1 + r.below(32) as u64, r.range_i64(-400 * DAY_NS, 400 * DAY_NS)));
            }
        }
    }
    c.start_ns = c.start_ns.clamp(lo, hi);
    c
}

#[derive(Clone, Debug, Serialize, Deserialize, PartialEq)]
pub struct Violation {
    pub property: String,
    /// invariant id + property-level signature; stable under shrinking
    pub class: String,
    /// full text of what failed (its FNV digest is what a replay must reproduce)
    pub detail: String,
}

impl Violation {
    pub fn digest(&self) -> u64 {
        fnv_str(&format!("{}\n{}", self.class, self.detail))
    }
}

#[derive(Default, Clone)]
pub struct Outcome {
    /// canonical event log (first line: seeds and derived configuration)
    pub log: Vec<String>,
    pub violation: Option<Violation>,
    /// run could not be used (subject outside the property's domain, panic in
    /// an operation, …): reason; never a verdict
    pub discard: Option<String>,
    /// harness trouble (seam not effective, Pending future…): exit 2, never a verdict
    pub harness_error: Option<String>,
    pub nontrivial: bool,
    /// digest of the run's "content" by the engine's distinctness rule
    pub content_digest: u64,
    /// op/caller sequence without payloads
    pub shape_digest: u64,
    pub counters: BTreeMap<String, u64>,
    pub sim_ns: i64,
    /// keys under which this (clean) run is worth keeping in the regression
    /// corpus: rare conditions it reached (e.g. a draw ending in a blank, a
    /// particular set of error codes)
    pub harvest: Vec<String>,
    /// engine-specific by-products (C13: the subjects' MT texts with their error codes)
    pub artifacts: Vec<serde_json::Value>,
}

impl Outcome {
    pub fn fingerprint(&self) -> u64 {
        let mut h = 0xcbf2_9ce4_8422_2325u64;
        for l in &self.log {
            for b in l.as_bytes().iter().chain(b"\n") {
                h ^= *b as u64;
                h = h.wrapping_mul(0x0000_0100_0000_01b3);
            }
        }
        h
    }
    pub fn count(&mut self, k: &str, n: u64) {
        if n > 0 {
            *self.counters.entry(k.to_string()).or_insert(0) += n;
        }
    }
    pub fn absorb_ctx(&mut self, ctx: &RunCtx) {
        self.count("seam.entropy_calls", ctx.n_entropy_calls.load(Relaxed));
        self.count("seam.entropy_bytes", ctx.n_entropy_bytes.load(Relaxed));
        self.count("seam.clock_reads", ctx.n_clock_reads.load(Relaxed));
        self.count("seam.monotonic_clock_reads", ctx.n_mono_reads.load(Relaxed));
        self.count("fault.clock.midnight_crossed_between_reads", ctx.midnights_crossed.load(Relaxed));
        self.count("fault.clock.year_crossed_between_reads", ctx.years_crossed.load(Relaxed));
        self.count("fault.clock.backward_step_observed", ctx.backward_steps_seen.load(Relaxed));
        self.count("fault.clock.jump_forward_fired", ctx.jumps_fired_fwd.load(Relaxed));
        self.count("fault.clock.jump_backward_fired", ctx.jumps_fired_back.load(Relaxed));
        self.count("fault.clock.stalled_read_at_window_edge", ctx.stalled_reads.load(Relaxed));
        self.count("probe.clock.read_on_feb29", ctx.leap_day_reads.load(Relaxed));
        let (mn, mx) = (ctx.min_read_ns.load(Relaxed), ctx.max_read_ns.load(Relaxed));
        if mx >= mn {
            self.sim_ns += mx - mn;
        }
    }
}

pub trait Engine {
    type Spec: Serialize + DeserializeOwned + Clone + Send + 'static;
    const ID: &'static str;
    const PROPERTY: &'static str;
    /// Pure function of (base seed, run index, scenario list).
    fn plan(env: &Env, base: u64, i: u64) -> Self::Spec;
    /// Executes the spec on fresh threads under the simulated seams.
    /// Returns the outcome and, when the spec contained search steps (e.g. a
    /// hill-climb), the equivalent fully explicit spec.
    fn execute(env: &Env, spec: &Self::Spec) -> (Outcome, Option<Self::Spec>);
    /// Strictly simpler variants to try while shrinking.
    fn shrink_candidates(spec: &Self::Spec) -> Vec<Self::Spec>;
    /// A short human-readable description for evidence samples.
    fn describe(spec: &Self::Spec) -> serde_json::Value;
    /// A scaled-up variant of a recorded (corpus) run, if the engine has a notion of scale.
    fn amplify(_spec: &Self::Spec) -> Option<Self::Spec> {
        None
    }
}

/// Runs `f` on a fresh OS thread (fresh `RandomState` keys, fresh `ThreadRng`),
/// so a run never inherits thread-local state from a previous one.
pub fn on_fresh_thread<R: Send + 'static>(f: impl FnOnce() -> R + Send + 'static) -> Result<R, String> {
    std::thread::Builder::new()
        .stack_size(16 << 20)
        .spawn(f)
        .map_err(|e| format!("spawn: {e}"))?
        .join()
        .map_err(|p| {
            if let Some(s) = p.downcast_ref::<String>() {
                s.clone()
            } else if let Some(s) = p.downcast_ref::<&str>() {
                s.to_string()
            } else {
                "panic".into()
            }
        })
}
