//! Small shared pieces: the PRNG every simulator choice is drawn from, stream
//! derivation, FNV fingerprints, the single-threaded executor, JSON equality.

use serde_json::Value;
use std::future::Future;
use std::pin::pin;
use std::sync::Arc;
use std::task::{Context, Poll, Wake, Waker};

/// SplitMix64. The only source of simulator choices.
#[derive(Clone, Debug)]
pub struct Sm(pub u64);

impl Sm {
    pub fn next(&mut self) -> u64 {
        self.0 = self.0.wrapping_add(0x9E37_79B9_7F4A_7C15);
        let mut z = self.0;
        z = (z ^ (z >> 30)).wrapping_mul(0xBF58_476D_1CE4_E5B9);
        z = (z ^ (z >> 27)).wrapping_mul(0x94D0_49BB_1331_11EB);
        z ^ (z >> 31)
    }
    pub fn below(&mut self, n: usize) -> usize {
        if n == 0 { 0 } else { (self.next() % n as u64) as usize }
    }
    pub fn range_i64(&mut self, lo: i64, hi: i64) -> i64 {
        if hi <= lo {
            return lo;
        }
        let span = (hi as i128 - lo as i128 + 1) as u128;
        (lo as i128 + (self.next() as u128 % span) as i128) as i64
    }
    pub fn chance(&mut self, num: usize, den: usize) -> bool {
        self.below(den) < num
    }
    pub fn pick<'a, T>(&mut self, xs: &'a [T]) -> &'a T {
        &xs[self.below(xs.len())]
    }
}

pub fn fnv(bytes: &[u8]) -> u64 {
    let mut h: u64 = 0xcbf2_9ce4_8422_2325;
    for b in bytes {
        h ^= *b as u64;
        h = h.wrapping_mul(0x0000_0100_0000_01b3);
    }
    h
}

pub fn fnv_str(s: &str) -> u64 {
    fnv(s.as_bytes())
}

/// Domain-separated stream derivation: `derive(base, "c13/sched", i)`.
pub fn derive(base: u64, label: &str, idx: u64) -> u64 {
    let mut s = Sm(base ^ fnv_str(label).rotate_left(17) ^ idx.wrapping_mul(0xD6E8_FEB8_6659_FD93));
    s.next();
    s.next()
}

struct Noop;
impl Wake for Noop {
    fn wake(self: Arc<Self>) {}
}

/// The simulator's executor: polls on the calling thread, never parks. A future
/// that returns `Pending` is waiting for something the simulator does not own,
/// which is a harness error, not a verdict.
pub fn block_on<F: Future>(f: F) -> Result<(F::Output, u32), String> {
    let w = Waker::from(Arc::new(Noop));
    let mut cx = Context::from_waker(&w);
    let mut f = pin!(f);
    if let Poll::Ready(v) = f.as_mut().poll(&mut cx) {
        return Ok((v, 1));
    }
    Err("future returned Pending under the simulated executor".into())
}

/// JSON equality used for round trips: a `null` member is an absent member,
/// numbers compare by exact numeric value (10000 == 10000.0; 1.005 != 1.0),
/// everything else structural, arrays in order. Returns the differences.
pub fn json_diff(a: &Value, b: &Value, path: &str, out: &mut Vec<String>) {
    match (a, b) {
        (Value::Object(x), Value::Object(y)) => {
            for (k, v) in x {
                if v.is_null() {
                    continue;
                }
                match y.get(k) {
                    Some(w) if !w.is_null() => json_diff(v, w, &format!("{path}/{k}"), out),
                    _ => out.push(format!("{path}/{k}: only in left = {}", short(v))),
                }
            }
            for (k, w) in y {
                if w.is_null() {
                    continue;
                }
                if x.get(k).is_none_or(|v| v.is_null()) {
                    out.push(format!("{path}/{k}: only in right = {}", short(w)));
                }
            }
        }
        (Value::Array(x), Value::Array(y)) => {
            if x.len() != y.len() {
                out.push(format!("{path}: array length {} vs {}", x.len(), y.len()));
            }
            for (i, (v, w)) in x.iter().zip(y.iter()).enumerate() {
                json_diff(v, w, &format!("{path}/{i}"), out);
            }
        }
        (Value::Number(x), Value::Number(y)) => {
            let same = match (x.as_i64(), y.as_i64(), x.as_u64(), y.as_u64()) {
                (Some(p), Some(q), _, _) => p == q,
                (_, _, Some(p), Some(q)) => p == q,
                _ => x.as_f64() == y.as_f64(),
            };
            if !same {
                out.push(format!("{path}: {x} vs {y}"));
            }
        }
        _ => {
            if a != b {
                out.push(format!("{path}: {} vs {}", short(a), short(b)));
            }
        }
    }
}

pub fn short(v: &Value) -> String {
    let s = v.to_string();
    if s.len() > 160 {
        let mut e = 160;
        while !s.is_char_boundary(e) {
            e -= 1;
        }
        format!("{}…", &s[..e])
    } else {
        s
    }
}

/// Path with array indices replaced by `*` (for violation class signatures).
pub fn path_shape(p: &str) -> String {
    p.split('/')
        .map(|s| if !s.is_empty() && s.bytes().all(|b| b.is_ascii_digit()) { "*" } else { s })
        .collect::<Vec<_>>()
        .join("/")
}

pub fn hex(v: u64) -> String {
    format!("{v:016x}")
}

/// A tracing subscriber that wants everything and keeps nothing: with it installed, every
/// `debug!`/`error!`/`#[instrument]` field expression in the library and its dependencies is
/// evaluated and formatted — the "diagnostics enabled" configuration of a deployment.
pub struct DiagSink;

struct FmtVisit(usize);
impl tracing::field::Visit for FmtVisit {
    fn record_debug(&mut self, _field: &tracing::field::Field, value: &dyn std::fmt::Debug) {
        self.0 += format!("{value:?}").len();
    }
}

impl tracing::Subscriber for DiagSink {
    fn enabled(&self, _m: &tracing::Metadata<'_>) -> bool {
        true
    }
    fn new_span(&self, attrs: &tracing::span::Attributes<'_>) -> tracing::span::Id {
        let mut v = FmtVisit(0);
        attrs.record(&mut v);
        tracing::span::Id::from_u64(1)
    }
    fn record(&self, _span: &tracing::span::Id, values: &tracing::span::Record<'_>) {
        let mut v = FmtVisit(0);
        values.record(&mut v);
    }
    fn record_follows_from(&self, _span: &tracing::span::Id, _follows: &tracing::span::Id) {}
    fn event(&self, event: &tracing::Event<'_>) {
        let mut v = FmtVisit(0);
        event.record(&mut v);
    }
    fn enter(&self, _span: &tracing::span::Id) {}
    fn exit(&self, _span: &tracing::span::Id) {}
}

/// Runs `f` with diagnostics enabled (thread-local default subscriber) or not.
pub fn with_diag<R>(on: bool, f: impl FnOnce() -> R) -> R {
    if on { tracing::subscriber::with_default(DiagSink, f) } else { f() }
}
