//! The two seams the simulator owns: kernel entropy and the wall clock.
//!
//! `getrandom(2)` and `clock_gettime(2)` are *defined in this binary*; the static
//! link resolves every caller (std's `RandomState` keys, `getrandom 0.3` behind
//! `rand::rng()`/`uuid`, `SystemTime::now` behind `chrono::Utc::now`) to these
//! definitions instead of libc's.  A thread that has no run context attached
//! falls through to the raw system call, so start-up code, cargo and the
//! harness's own bookkeeping never see simulated values.
//!
//! A run context is shared (by raw pointer in a thread-local) between the run's
//! scheduler thread and its caller threads: entropy bytes and clock ticks are
//! consumed in schedule order, which the scheduler decides.

use std::cell::Cell;
use std::sync::Arc;
use std::sync::atomic::{AtomicI64, AtomicU64, Ordering::Relaxed};

pub const NS: i64 = 1_000_000_000;
pub const DAY_NS: i64 = 86_400 * NS;

/// One pending clock jump: fires when the `at_read`-th wall clock read of the
/// run happens (1-based), i.e. it always lies between two reads or before the
/// first one.
#[derive(Clone, Debug)]
pub struct JumpAt {
    pub at_read: u64,
    pub delta_ns: i64,
}

pub struct RunCtx {
    ent: AtomicU64,
    now_ns: AtomicI64,
    tick_ns: AtomicI64,
    lo_ns: i64,
    hi_ns: i64,
    jumps: Vec<JumpAt>,
    pending_fwd: AtomicU64,
    pending_back: AtomicU64,
    /// simulated monotonic clock (CLOCK_MONOTONIC and friends): advances by `mono_tick_ns`
    /// per read — a large tick is a slow or stalled node as seen by code that measures elapsed time
    mono_ns: AtomicI64,
    mono_tick_ns: AtomicI64,
    // counters (measured, reported in evidence)
    pub n_entropy_calls: AtomicU64,
    pub n_entropy_bytes: AtomicU64,
    pub n_clock_reads: AtomicU64,
    pub n_mono_reads: AtomicU64,
    pub first_read_ns: AtomicI64,
    pub last_read_ns: AtomicI64,
    pub min_read_ns: AtomicI64,
    pub max_read_ns: AtomicI64,
    pub midnights_crossed: AtomicU64,
    pub years_crossed: AtomicU64,
    pub backward_steps_seen: AtomicU64,
    pub jumps_fired_fwd: AtomicU64,
    pub jumps_fired_back: AtomicU64,
    pub stalled_reads: AtomicU64,
    pub leap_day_reads: AtomicU64,
}

impl RunCtx {
    pub fn new(
        entropy_seed: u64,
        start_ns: i64,
        tick_ns: i64,
        lo_ns: i64,
        hi_ns: i64,
        jumps: Vec<JumpAt>,
    ) -> Arc<RunCtx> {
        Arc::new(RunCtx {
            ent: AtomicU64::new(entropy_seed),
            now_ns: AtomicI64::new(start_ns.clamp(lo_ns, hi_ns)),
            tick_ns: AtomicI64::new(tick_ns),
            lo_ns,
            hi_ns,
            jumps,
            pending_fwd: AtomicU64::new(0),
            pending_back: AtomicU64::new(0),
            mono_ns: AtomicI64::new(1_000_000_000_000),
            mono_tick_ns: AtomicI64::new(1_000),
            n_entropy_calls: AtomicU64::new(0),
            n_entropy_bytes: AtomicU64::new(0),
            n_clock_reads: AtomicU64::new(0),
            n_mono_reads: AtomicU64::new(0),
            first_read_ns: AtomicI64::new(i64::MIN),
            last_read_ns: AtomicI64::new(i64::MIN),
            min_read_ns: AtomicI64::new(i64::MAX),
            max_read_ns: AtomicI64::new(i64::MIN),
            midnights_crossed: AtomicU64::new(0),
            years_crossed: AtomicU64::new(0),
            backward_steps_seen: AtomicU64::new(0),
            jumps_fired_fwd: AtomicU64::new(0),
            jumps_fired_back: AtomicU64::new(0),
            stalled_reads: AtomicU64::new(0),
            leap_day_reads: AtomicU64::new(0),
        })
    }

    /// Re-key the entropy stream (start of the operations phase: every
    /// `RandomState` created from here on is keyed from the new stream).
    pub fn rekey_entropy(&self, seed: u64) {
        self.ent.store(seed, Relaxed);
    }

    /// Scheduler-injected jump between two operations.
    pub fn jump_now(&self, delta_ns: i64) {
        let n = self.now_ns.load(Relaxed);
        self.now_ns
            .store(n.saturating_add(delta_ns).clamp(self.lo_ns, self.hi_ns), Relaxed);
        if delta_ns >= 0 {
            self.pending_fwd.fetch_add(1, Relaxed);
        } else {
            self.pending_back.fetch_add(1, Relaxed);
        }
    }

    pub fn set_mono_tick(&self, tick_ns: i64) {
        self.mono_tick_ns.store(tick_ns, Relaxed);
    }

    pub fn set_tick(&self, tick_ns: i64) {
        self.tick_ns.store(tick_ns, Relaxed);
    }

    pub fn now(&self) -> i64 {
        self.now_ns.load(Relaxed)
    }

    fn next_entropy(&self) -> u64 {
        let mut z = self.ent.load(Relaxed).wrapping_add(0x9E37_79B9_7F4A_7C15);
        self.ent.store(z, Relaxed);
        z = (z ^ (z >> 30)).wrapping_mul(0xBF58_476D_1CE4_E5B9);
        z = (z ^ (z >> 27)).wrapping_mul(0x94D0_49BB_1331_11EB);
        z ^ (z >> 31)
    }

    fn read_clock(&self) -> i64 {
        let k = self.n_clock_reads.fetch_add(1, Relaxed) + 1;
        let mut n = self.now_ns.load(Relaxed);
        // a scheduler-injected jump counts as fired only once a read observes it
        self.jumps_fired_fwd
            .fetch_add(self.pending_fwd.swap(0, Relaxed), Relaxed);
        self.jumps_fired_back
            .fetch_add(self.pending_back.swap(0, Relaxed), Relaxed);
        for j in &self.jumps {
            if j.at_read == k {
                n = n.saturating_add(j.delta_ns).clamp(self.lo_ns, self.hi_ns);
                if j.delta_ns >= 0 {
                    self.jumps_fired_fwd.fetch_add(1, Relaxed);
                } else {
                    self.jumps_fired_back.fetch_add(1, Relaxed);
                }
            }
        }
        let t = self.tick_ns.load(Relaxed);
        let stepped = n.saturating_add(t).clamp(self.lo_ns, self.hi_ns);
        if stepped == n && t != 0 {
            self.stalled_reads.fetch_add(1, Relaxed);
        }
        n = stepped;
        self.now_ns.store(n, Relaxed);
        let prev = self.last_read_ns.swap(n, Relaxed);
        if prev == i64::MIN {
            self.first_read_ns.store(n, Relaxed);
        } else {
            if n < prev {
                self.backward_steps_seen.fetch_add(1, Relaxed);
            }
            if n.div_euclid(DAY_NS) != prev.div_euclid(DAY_NS) {
                self.midnights_crossed.fetch_add(1, Relaxed);
            }
            if civil_from_ns(n).0 != civil_from_ns(prev).0 {
                self.years_crossed.fetch_add(1, Relaxed);
            }
        }
        self.min_read_ns.fetch_min(n, Relaxed);
        self.max_read_ns.fetch_max(n, Relaxed);
        let (_, m, d) = civil_from_ns(n);
        if m == 2 && d == 29 {
            self.leap_day_reads.fetch_add(1, Relaxed);
        }
        n
    }
}

/// (year, month, day) of a UNIX time in ns (proleptic Gregorian, UTC).
pub fn civil_from_ns(ns: i64) -> (i64, u32, u32) {
    let z = ns.div_euclid(DAY_NS) + 719_468;
    let era = z.div_euclid(146_097);
    let doe = z.rem_euclid(146_097);
    let yoe = (doe - doe / 1_460 + doe / 36_524 - doe / 146_096) / 365;
    let y = yoe + era * 400;
    let doy = doe - (365 * yoe + yoe / 4 - yoe / 100);
    let mp = (5 * doy + 2) / 153;
    let d = (doy - (153 * mp + 2) / 5 + 1) as u32;
    let m = if mp < 10 { mp + 3 } else { mp - 9 } as u32;
    (if m <= 2 { y + 1 } else { y }, m, d)
}

/// Days since 1970-01-01 of a civil date.
pub fn days_from_civil(y: i64, m: u32, d: u32) -> i64 {
    let y = if m <= 2 { y - 1 } else { y };
    let era = y.div_euclid(400);
    let yoe = y.rem_euclid(400);
    let mp = if m > 2 { m - 3 } else { m + 9 } as i64;
    let doy = (153 * mp + 2) / 5 + d as i64 - 1;
    let doe = yoe * 365 + yoe / 4 - yoe / 100 + doy;
    era * 146_097 + doe - 719_468
}

pub fn ns_of(y: i64, m: u32, d: u32, h: i64, mi: i64, s: i64, nano: i64) -> i64 {
    days_from_civil(y, m, d) * DAY_NS + (h * 3600 + mi * 60 + s) * NS + nano
}

pub fn fmt_ns(ns: i64) -> String {
    let (y, m, d) = civil_from_ns(ns);
    let r = ns.rem_euclid(DAY_NS);
    format!(
        "{y:04}-{m:02}-{d:02}T{:02}:{:02}:{:02}.{:03}Z",
        r / (3600 * NS),
        r / (60 * NS) % 60,
        r / NS % 60,
        r % NS / 1_000_000
    )
}

pub static TRACE: AtomicU64 = AtomicU64::new(0);

thread_local! {
    static CTX: Cell<*const RunCtx> = const { Cell::new(std::ptr::null()) };
}

/// Attaches a run context to the current thread for the guard's lifetime.
pub struct Attached {
    _keep: Arc<RunCtx>,
}

pub fn attach(ctx: &Arc<RunCtx>) -> Attached {
    CTX.with(|c| c.set(Arc::as_ptr(ctx)));
    Attached { _keep: ctx.clone() }
}

impl Drop for Attached {
    fn drop(&mut self) {
        CTX.with(|c| c.set(std::ptr::null()));
    }
}

pub fn is_attached() -> bool {
    CTX.with(|c| !c.get().is_null())
}

unsafe extern "C" {
    fn syscall(n: i64, ...) -> i64;
}

const SYS_GETRANDOM: i64 = 318;
const SYS_CLOCK_GETTIME: i64 = 228;
const CLOCK_REALTIME: i32 = 0;

/// Entropy seam. Linux x86_64 only (the sandbox this framework targets).
#[unsafe(no_mangle)]
pub unsafe extern "C" fn getrandom(buf: *mut u8, len: usize, flags: u32) -> isize {
    let p = CTX.with(|c| c.get());
    if p.is_null() {
        return unsafe { syscall(SYS_GETRANDOM, buf, len, flags) } as isize;
    }
    let ctx = unsafe { &*p };
    if TRACE.load(Relaxed) != 0 {
        // debugging aid (MTSIM_TRACE_ENTROPY=1): who draws entropy, on which thread
        CTX.with(|c| c.set(std::ptr::null()));
        let bt = format!("{}", std::backtrace::Backtrace::force_capture());
        let keep: Vec<&str> = bt.lines().filter(|l| l.contains("::") && !l.contains("backtrace")).take(12).collect();
        eprintln!("ENTROPY len={len} call#{} thread={:?}\n{}\n", ctx.n_entropy_calls.load(Relaxed) + 1, std::thread::current().id(), keep.join("\n"));
        CTX.with(|c| c.set(p));
    }
    ctx.n_entropy_calls.fetch_add(1, Relaxed);
    ctx.n_entropy_bytes.fetch_add(len as u64, Relaxed);
    let mut i = 0;
    while i < len {
        let v = ctx.next_entropy().to_le_bytes();
        for (k, b) in v.iter().enumerate() {
            if i + k < len {
                unsafe { *buf.add(i + k) = *b };
            }
        }
        i += 8;
    }
    len as isize
}

#[repr(C)]
pub struct Timespec {
    tv_sec: i64,
    tv_nsec: i64,
}

/// Wall-clock seam (CLOCK_REALTIME only; other clocks are passed through and counted).
#[unsafe(no_mangle)]
pub unsafe extern "C" fn clock_gettime(clock: i32, ts: *mut Timespec) -> i32 {
    let p = CTX.with(|c| c.get());
    if p.is_null() {
        return unsafe { syscall(SYS_CLOCK_GETTIME, clock as i64, ts) } as i32;
    }
    let ctx = unsafe { &*p };
    if clock != CLOCK_REALTIME {
        // CLOCK_MONOTONIC (1), _RAW (4), _COARSE (6), BOOTTIME (7): the simulated monotonic clock;
        // CPU-time clocks (2, 3) are passed through
        if matches!(clock, 1 | 4 | 6 | 7) {
            ctx.n_mono_reads.fetch_add(1, Relaxed);
            let n = ctx.mono_ns.fetch_add(ctx.mono_tick_ns.load(Relaxed), Relaxed) + ctx.mono_tick_ns.load(Relaxed);
            unsafe {
                (*ts).tv_sec = n.div_euclid(NS);
                (*ts).tv_nsec = n.rem_euclid(NS);
            }
            return 0;
        }
        return unsafe { syscall(SYS_CLOCK_GETTIME, clock as i64, ts) } as i32;
    }
    let n = ctx.read_clock();
    unsafe {
        (*ts).tv_sec = n.div_euclid(NS);
        (*ts).tv_nsec = n.rem_euclid(NS);
    }
    0
}
