#![recursion_limit = "256"]
//! mtsim — deterministic simulation with fault injection for swift-mt-message.
//!
//!   mtsim check <C13|C15|C16> <quick|thorough>   driver: workers, merge, evidence, verdict
//!   mtsim worker <engine> <base> <p> <workers> <total> <out-prefix>
//!   mtsim replay <file>
//!   mtsim selftest                               seam self-test (exit 2 on failure)
//!   mtsim selfcheck [pairs]                      determinism block over all engines
//!   mtsim fps <engine> <base> <g> <from> <count> fingerprints (used by selfcheck)
//!   mtsim run <engine> <base> <index>            print one run's log
//!
//! Exit codes: 0 property held on everything explored; 1 violation (a line
//! `VIOLATION property=<id> replay=<path>`); 2 harness error (never a verdict).

mod batch;
mod c13;
mod c15;
mod c16;
mod mt;
mod scen;
mod seam;
mod sim;
mod util;

use batch::*;
use serde_json::{json, Value};
use sim::*;
use std::collections::{BTreeMap, HashSet};
use std::path::PathBuf;
use std::process::Command;
use util::*;

const DEFAULT_SEED: u64 = 20250917;

macro_rules! dispatch {
    ($name:expr, $E:ident => $e:expr) => {
        match $name {
            "pipeline" | "C15" | "c15" => { type $E = c15::C15; $e }
            "validate-history" | "C13" | "c13" => { type $E = c13::C13; $e }
            "consume-history" | "C16" | "c16" => { type $E = c16::C16; $e }
            other => { eprintln!("unknown engine/property {other}"); std::process::exit(2) }
        }
    };
}

fn env_u64(k: &str) -> Option<u64> {
    std::env::var(k).ok().and_then(|s| s.trim().parse().ok())
}

fn die(msg: &str) -> ! {
    eprintln!("HARNESS-ERROR: {msg}");
    std::process::exit(2)
}

/// Mandatory seam self-test: the check must never silently degrade into
/// observing uncontrolled nondeterminism.
fn selftest() -> Result<Value, String> {
    use std::collections::HashSet as HS;
    let probe = |seed: u64| -> Result<(Vec<String>, u64, i64, u64, u64, String), String> {
        let clock = ClockCfg { start_ns: seam::ns_of(2031, 3, 4, 5, 6, 7, 0), tick_ns: 1_000, ..ClockCfg::plain() };
        let ctx = clock.ctx(seed);
        let c2 = ctx.clone();
        let r = on_fresh_thread(move || {
            let _a = seam::attach(&c2);
            let now = std::time::SystemTime::now().duration_since(std::time::UNIX_EPOCH).map(|d| d.as_nanos() as i64).unwrap_or(-1);
            let mut h: HS<String> = HS::new();
            for i in 0..24 {
                h.insert(format!("k{i}"));
            }
            let order: Vec<String> = h.iter().cloned().collect();
            // an independent entropy consumer inside the dependency tree: uuid v4 through datafake
            let g = datafake_rs::DataGenerator::from_value(json!({"schema": {"u": {"fake": ["uuid"]}, "d": {"fake": ["date", "%Y-%m-%d"]}}}))
                .map_err(|e| format!("{e:?}"))
                .and_then(|g| g.generate().map_err(|e| format!("{e:?}")));
            let chrono_now = chrono::Utc::now().format("%Y-%m-%d").to_string();
            (order, now, g, chrono_now)
        })?;
        let (order, now, g, chrono_now) = r;
        let g = g?;
        use std::sync::atomic::Ordering::Relaxed;
        let draw = format!("{}|{}", g["u"], g["d"]);
        Ok((order, fnv_str(&draw), now, ctx.n_entropy_calls.load(Relaxed), ctx.n_clock_reads.load(Relaxed), format!("{chrono_now}|{draw}")))
    };
    let a1 = probe(11)?;
    let a2 = probe(11)?;
    if a1.0 != a2.0 || a1.1 != a2.1 {
        return Err("seam self-test: equal entropy seeds gave different HashSet order or draws — the getrandom override is not effective".into());
    }
    if a1.2 != seam::ns_of(2031, 3, 4, 5, 6, 7, 0) + 1_000 {
        return Err(format!("seam self-test: SystemTime::now() returned {} instead of the simulated instant — the clock_gettime override is not effective", a1.2));
    }
    if !a1.5.starts_with("2031-03-04|") || !a1.5.contains("2031-03-04") {
        return Err(format!("seam self-test: chrono/datafake date did not follow the simulated clock: {}", a1.5));
    }
    let mut differ = 0;
    for s in 12..20u64 {
        let b = probe(s)?;
        if b.0 != a1.0 || b.1 != a1.1 {
            differ += 1;
        }
    }
    if differ == 0 {
        return Err("seam self-test: 8 different entropy seeds all behaved like seed 11".into());
    }
    if a1.3 == 0 || a1.4 == 0 {
        return Err(format!("seam self-test: counters entropy_calls={} clock_reads={}", a1.3, a1.4));
    }
    if seam::is_attached() {
        return Err("seam self-test: context leaked to the harness thread".into());
    }
    Ok(json!({"same_seed_same_order_and_draws": true, "seeds_differing_from_reference_of_8": differ,
              "entropy_calls_in_probe": a1.3, "clock_reads_in_probe": a1.4, "probe": a1.5}))
}

#[derive(serde::Deserialize, Default)]
struct KnownFindings {
    #[serde(default)]
    findings: Vec<KnownFinding>,
}
#[derive(serde::Deserialize, Clone)]
struct KnownFinding {
    status: String, // "known" | "fixed"
    property: String,
    /// violation class this finding is identified by (exact match)
    class: String,
    #[serde(default)]
    what: String,
}

struct Tier {
    reps_per_file: u64,
}

fn tier_of(prop: &str, tier: &str) -> Tier {
    let reps = match (prop, tier) {
        ("C15", "quick") => 128,
        ("C15", _) => 10_000,
        ("C13", "quick") => 96,
        ("C13", _) => 5_000,
        ("C16", "quick") => 64,
        ("C16", _) => 5_000,
        _ => 16,
    };
    Tier { reps_per_file: env_u64("MTSIM_REPS").unwrap_or(reps) }
}

fn check(prop: &str, tier: &str) -> i32 {
    let t0 = std::time::Instant::now();
    let base = env_u64("VERIF_SEED").unwrap_or(DEFAULT_SEED);
    let st = match selftest() {
        Ok(v) => v,
        Err(e) => die(&e),
    };
    let env = Env::load().unwrap_or_else(|e| die(&e));
    let root = verif_root();
    let known: KnownFindings = match std::fs::read_to_string(root.join("known_findings.json")) {
        Ok(s) => serde_json::from_str(&s).unwrap_or_else(|e| die(&format!("known_findings.json: {e}"))),
        Err(_) => KnownFindings::default(),
    };
    let (engine_id, property) = dispatch!(prop, E => (<E as Engine>::ID, <E as Engine>::PROPERTY));
    let reps = tier_of(property, tier).reps_per_file;
    let total = reps * env.scenarios.len() as u64;
    let workers = env_u64("MTSIM_WORKERS").unwrap_or(16).max(1);
    let work = root.join("work").join(format!("{property}-{tier}"));
    let _ = std::fs::remove_dir_all(&work);
    std::fs::create_dir_all(&work).unwrap_or_else(|e| die(&format!("{e}")));
    let exe = std::env::current_exe().unwrap_or_else(|e| die(&format!("{e}")));
    // change-aware budget (C15): scenario files whose content differs from what the corpus was
    // recorded against get a much deeper seeded exploration — a rare draw of an edited
    // generator is exactly what a fixed number of runs per file would miss
    let mut extra: Vec<u64> = vec![];
    let mut changed_files: Vec<String> = vec![];
    if property == "C15" {
        let known: BTreeMap<String, String> = std::fs::read_to_string(root.join("corpus").join("scenario_digests.json")).ok().and_then(|t| serde_json::from_str(&t).ok()).unwrap_or_default();
        if !known.is_empty() {
            let nf = env.scenarios.len() as u64;
            let changed: Vec<u64> = env.scenarios.iter().enumerate().filter(|(_, s)| known.get(&s.rel) != Some(&hex(s.digest))).map(|(i, _)| i as u64).collect();
            if !changed.is_empty() {
                let cap: u64 = env_u64("MTSIM_EXTRA_CAP").unwrap_or(if tier == "thorough" { 4_000_000 } else { 480_000 });
                let per = (cap / changed.len() as u64).min(if tier == "thorough" { 200_000 } else { 24_000 });
                for r in 0..per {
                    for c in &changed {
                        extra.push((reps + r) * nf + c);
                    }
                }
                changed_files = changed.iter().map(|c| env.scenarios[*c as usize].rel.clone()).collect();
            }
        }
    }
    let extra_path = work.join("extra.idx");
    if !extra.is_empty() {
        std::fs::write(&extra_path, extra.iter().map(|i| i.to_string()).collect::<Vec<_>>().join("\n")).unwrap_or_else(|e| die(&format!("{e}")));
        println!("mtsim: {} scenario file(s) differ from the recorded digests ({}{}): {} extra runs", changed_files.len(), changed_files.iter().take(4).cloned().collect::<Vec<_>>().join(", "), if changed_files.len() > 4 { ", …" } else { "" }, extra.len());
    }
    println!("mtsim check property={property} engine={engine_id} tier={tier} seed={base} runs={total} ({} scenario files x {reps}) + {} corpus runs (and their scaled-up variants), workers={workers}", env.scenarios.len(), load_corpus(property).len());
    let mut kids = vec![];
    for p in 0..workers {
        let pre = work.join(format!("w{p}"));
        let child = Command::new(&exe)
            .args(["worker", engine_id, &base.to_string(), &p.to_string(), &workers.to_string(), &total.to_string()])
            .arg(&pre)
            .arg(&extra_path)
            .spawn()
            .unwrap_or_else(|e| die(&format!("spawn worker: {e}")));
        kids.push((p, pre, child));
    }
    // first-touch workers: one short-lived process per message type whose warm-up touches a scenario
    // of that type first, followed by a small batch of further runs (indices beyond the main batch)
    let mut first_touch_types = 0u64;
    if std::env::var("MTSIM_NO_FIRST_TOUCH").is_err() {
        let mut seen_types: Vec<(String, usize)> = vec![];
        for (i, sc) in env.scenarios.iter().enumerate() {
            if !seen_types.iter().any(|(t, _)| *t == sc.mt) {
                seen_types.push((sc.mt.clone(), i));
            }
        }
        let per = if tier == "thorough" { 400u64 } else { 48 };
        let start = total + 10_000_000;
        for (k, (_mt, idx)) in seen_types.iter().enumerate() {
            let pre = work.join(format!("ft{k}"));
            let ex = work.join(format!("ft{k}.idx"));
            let ids: Vec<String> = (0..per).map(|j| (start + k as u64 * per + j).to_string()).collect();
            std::fs::write(&ex, ids.join("\n")).unwrap_or_else(|e| die(&format!("{e}")));
            let child = Command::new(&exe)
                .args(["worker", engine_id, &base.to_string(), &(1000 + k as u64).to_string(), "1", "0"])
                .arg(&pre)
                .arg(&ex)
                .env("MTSIM_FIRST_TOUCH", idx.to_string())
                .env("MTSIM_NO_CORPUS", "1")
                .spawn()
                .unwrap_or_else(|e| die(&format!("spawn first-touch worker: {e}")));
            kids.push((1000 + k as u64, pre, child));
            first_touch_types += 1;
        }
    }
    let mut reports: Vec<WorkerReport> = vec![];
    let (mut fps, mut shapes, mut contents) = (HashSet::new(), HashSet::new(), HashSet::new());
    for (p, pre, mut c) in kids {
        let s = c.wait().unwrap_or_else(|e| die(&format!("wait: {e}")));
        if !s.success() {
            die(&format!("worker {p} exited with {s}"));
        }
        let pre_s = pre.to_string_lossy().to_string();
        let rep: WorkerReport = serde_json::from_str(&std::fs::read_to_string(format!("{pre_s}.json")).unwrap_or_else(|e| die(&format!("worker {p} report: {e}"))))
            .unwrap_or_else(|e| die(&format!("worker {p} report: {e}")));
        for (ext, set) in [("fps", &mut fps), ("shapes", &mut shapes), ("contents", &mut contents)] {
            read_set(&PathBuf::from(format!("{pre_s}.{ext}")), set).unwrap_or_else(|e| die(&e));
        }
        reports.push(rep);
    }
    let _ = std::fs::remove_dir_all(&work);

    // determinism block (thorough tier, or on request)
    let det = if tier == "thorough" || std::env::var("MTSIM_DETERMINISM").is_ok() {
        match determinism(&[engine_id], env_u64("MTSIM_DET_PAIRS").unwrap_or(2000), base) {
            Ok(v) => Some(v),
            Err(e) => die(&e),
        }
    } else {
        None
    };

    // merge
    let mut counters: BTreeMap<String, u64> = BTreeMap::new();
    let mut discard_reasons: BTreeMap<String, u64> = BTreeMap::new();
    let mut vcounts: BTreeMap<String, u64> = BTreeMap::new();
    let (mut runs, mut nontrivial, mut discarded, mut sim_ns) = (0u64, 0u64, 0u64, 0i128);
    let mut harness: Vec<String> = vec![];
    let mut samples: Vec<Value> = vec![];
    let mut viols: Vec<FoundViolation> = vec![];
    let mut corpus_runs = 0u64;
    let mut cand: BTreeMap<String, Vec<Value>> = BTreeMap::new();
    for r in &reports {
        corpus_runs += r.corpus_runs;
        for (k, v) in &r.candidates {
            let e = cand.entry(k.clone()).or_default();
            if e.len() < 2 {
                e.push(v.clone());
            }
        }
        runs += r.runs;
        nontrivial += r.nontrivial_runs;
        discarded += r.discarded;
        sim_ns += r.sim_ns;
        for (k, v) in &r.counters {
            *counters.entry(k.clone()).or_insert(0) += v;
        }
        for (k, v) in &r.discard_reasons {
            *discard_reasons.entry(k.clone()).or_insert(0) += v;
        }
        for (k, v) in &r.violation_counts {
            *vcounts.entry(k.clone()).or_insert(0) += v;
        }
        harness.extend(r.harness_errors.iter().cloned());
        if samples.len() < 4 {
            samples.extend(r.samples.iter().take(2).cloned());
        }
        viols.extend(r.violations.iter().cloned());
    }
    if !harness.is_empty() {
        for h in harness.iter().take(10) {
            eprintln!("HARNESS-ERROR: {h}");
        }
        std::process::exit(2);
    }
    // verdict lines: one per violation class (first replay found for it)
    let mut seen: HashSet<String> = HashSet::new();
    let mut new_violations = 0;
    let mut known_hits: Vec<String> = vec![];
    let mut reported: Vec<Value> = vec![];
    viols.sort_by(|a, b| a.class.cmp(&b.class).then(a.run_index.cmp(&b.run_index)));
    for v in &viols {
        if !seen.insert(v.class.clone()) {
            continue;
        }
        let n = vcounts.get(&v.class).copied().unwrap_or(1);
        if let Some(k) = known.findings.iter().find(|k| k.status == "known" && k.property == v.property && k.class == v.class) {
            println!("KNOWN-FINDING: property={} {} [{}] ({} run(s); replay={})", v.property, k.what, v.class, n, v.replay);
            known_hits.push(v.class.clone());
        } else {
            new_violations += 1;
            println!("VIOLATION property={} replay={}", v.property, v.replay);
            println!("  class: {}   ({} of {} runs)", v.class, n, runs);
            println!("  detail: {}", v.detail);
            println!("  minimised with {} candidate executions ({} accepted); replay: ./check replay {}", v.shrink_tried, v.shrink_accepted, v.replay);
            if v.history_prefix > 0 && v.reproducible {
                println!("  note: not a function of the run alone — it needs the {} preceding run(s) of the same process (recorded in the replay file as history prefix): state leaks between calls", v.history_prefix);
            }
            if !v.reproducible {
                println!("  note: observed on real code but NOT reproducible from the recorded run and its recent history: the outcome depends on process state outside the simulator's control (a cache or static written by earlier runs)");
            }
        }
        reported.push(json!({"class": v.class, "runs": n, "replay": v.replay, "detail": v.detail}));
    }
    // micro-schedule stage (C13): result file written by tools/micro.sh just before this driver ran
    let mut micro: Option<Value> = None;
    if property == "C13" || property == "C15" || property == "C16" {
        let mp = root.join("work").join(format!("{property}-micro.json"));
        if let Ok(t) = std::fs::read_to_string(&mp) {
            let m: Value = serde_json::from_str(&t).unwrap_or_else(|e| die(&format!("micro.json: {e}")));
            if m["harness_errors"].as_array().is_some_and(|a| !a.is_empty()) {
                die(&format!("micro-schedule stage: {}", m["harness_errors"]));
            }
            for v in m["violations"].as_array().cloned().unwrap_or_default() {
                let class = v["class"].as_str().unwrap_or("").to_string();
                let replay = v["replay"].as_str().unwrap_or("").to_string();
                if let Some(k) = known.findings.iter().find(|k| k.status == "known" && k.property == property && k.class == class) {
                    println!("KNOWN-FINDING: property={property} {} [{}] (replay={})", k.what, class, replay);
                    known_hits.push(class.clone());
                } else {
                    new_violations += 1;
                    println!("VIOLATION property={property} replay={replay}");
                    println!("  class: {class}   ({} interleaving(s))", v["runs"]);
                    println!("  detail: {}", v["detail"].as_str().unwrap_or(""));
                    println!("  replay: ./check replay {replay}   (one Miri seed = one exactly repeatable interleaving)");
                }
                reported.push(v);
            }
            let _ = std::fs::remove_file(&mp);
            micro = Some(m);
        }
    }
    // classes that were counted but never shrunk (cap per worker): still violations
    for (class, n) in &vcounts {
        if !seen.contains(class) {
            new_violations += 1;
            println!("VIOLATION property={property} replay=(not minimised: per-worker cap reached) class={class} runs={n}");
        }
    }
    // corpus candidates: written to work/ (git-ignored); tools/corpus_update.py curates them into corpus/
    if new_violations == 0 && std::env::var("MTSIM_EVIDENCE_DIR").is_err() {
        let cdir = root.join("work").join("corpus_candidates");
        let _ = std::fs::create_dir_all(&cdir);
        let mut text = String::new();
        for (k, vs) in &cand {
            for v in vs {
                text.push_str(&json!({"key": k, "spec": v}).to_string());
                text.push('\n');
            }
        }
        let _ = std::fs::write(cdir.join(format!("{property}-{tier}.jsonl")), text);
    }
    let wall = t0.elapsed().as_secs_f64() + micro.as_ref().and_then(|m| m["wall_s"].as_f64()).unwrap_or(0.0);
    if samples.is_empty() {
        samples.push(json!({"note": "no sample captured"}));
    }
    let faults: BTreeMap<&String, &u64> = counters.iter().filter(|(k, _)| k.starts_with("fault.")).collect();
    let probes_m: BTreeMap<&String, &u64> = counters.iter().filter(|(k, _)| k.starts_with("probe.")).collect();
    let ev = json!({
        "property_id": property,
        "tier": tier,
        "seed": base,
        "level": "exploration",
        "wall_s": wall,
        "violations": new_violations,
        "coverage": {
            "evaluations": runs + micro.as_ref().and_then(|m| m["interleavings_executed"].as_u64()).unwrap_or(0),
            "distinct_nontrivial": fps.len(),
            "rule": dispatch!(prop, E => rule_text(<E as Engine>::PROPERTY)),
            "samples": samples,
            "technique": "deterministic simulation with fault injection: seeded search over entropy streams, wall-clock faults and caller schedules",
            "first_touch_worker_processes": first_touch_types,
            "runs": runs, "corpus_runs": corpus_runs, "extra_runs_on_changed_scenario_files": extra.len(), "changed_scenario_files": changed_files, "corpus_candidate_keys_reached": cand.len(), "nontrivial_runs": nontrivial, "discarded_runs": discarded, "discard_reasons": discard_reasons,
            "runs_per_hour": if wall > 0.0 { (runs as f64 / wall * 3600.0) as u64 } else { 0 },
            "seeds_per_hour": if wall > 0.0 { (runs as f64 / wall * 3600.0) as u64 } else { 0 },
            "simulated_time_covered_s": (sim_ns / 1_000_000_000) as i64,
            "simulated_time_covered_years": (sim_ns as f64 / 1e9 / 86400.0 / 365.25),
            "distinct_run_fingerprints": fps.len(),
            "distinct_schedule_shapes": shapes.len(),
            "distinct_contents": contents.len(),
            "faults_fired": faults,
            "probes": probes_m,
            "counters": counters,
            "violation_classes": vcounts,
            "reported": reported,
            "known_findings_hit": known_hits,
            "seam_selftest": st,
            "determinism": det,
            "micro_schedule_stage": micro,
            "workers": workers,
            "global_seeds": reports.iter().map(|r| hex(r.global_seed)).collect::<Vec<_>>(),
            "components": {
                "real": ["swift-mt-message (working tree of /repo)", "datafake-rs", "fake", "rand ThreadRng", "uuid", "chrono", "serde_json", "datalogic-rs", "dataflow-rs Engine/Message/workflow executor", "the four plugin handlers"],
                "stub": ["kernel entropy: getrandom(2) defined in the simulator binary", "wall clock and monotonic clock: clock_gettime(CLOCK_REALTIME / CLOCK_MONOTONIC*) defined in the simulator binary", "async runtime: single-threaded poll loop instead of tokio", "OS thread scheduler: one caller thread released at a time (baton)"]
            }
        },
        "assumptions": assumptions(property),
    });
    let evdir = std::env::var("MTSIM_EVIDENCE_DIR").map(PathBuf::from).unwrap_or(root.join("evidence"));
    let _ = std::fs::create_dir_all(&evdir);
    std::fs::write(evdir.join(format!("{property}.json")), serde_json::to_string_pretty(&ev).unwrap()).unwrap_or_else(|e| die(&format!("evidence: {e}")));
    println!(
        "mtsim: {runs} runs ({nontrivial} non-trivial, {discarded} discarded), {} distinct fingerprints, {} shapes, {:.1} simulated years, {:.1}s wall; violations={new_violations} known={}",
        fps.len(), shapes.len(), sim_ns as f64 / 1e9 / 86400.0 / 365.25, wall, known_hits.len()
    );
    if new_violations > 0 { 1 } else { 0 }
}

fn rule_text(p: &str) -> &'static str {
    match p {
        "C15" => "one run = one scenario file driven through generate→publish→validate→parse (dataflow Engine + the four plugin handlers, or generate_sample_with_config) under one simulated entropy stream and one simulated wall clock (16 clock classes incl. leap days, midnight/new-year crossings, window edges, big ticks, forward/backward jumps), or as 2–3 pipelines whose tasks are interleaved one at a time across caller threads; in that path one pipeline may have its published text corrupted by the harness (not judged; the others must be unaffected) and a pipeline may run a second pass over the same Message; recorded rare draws (corpus) are replayed and scenario files edited since the corpus was recorded get extra runs; the micro-schedule stage (validate_mt on a valid message overlapping the validation of a rule-violating one under one Miri scheduler seed = one evaluation) is counted in evaluations. Non-trivial: the run consumed at least one entropy call or clock read. Distinct: FNV-1a of the run's canonical event log (seeds, clock configuration, digests of generated JSON, published MT text and parsed JSON, seam counters).",
        "C13" => "one run = 1–3 subject messages (scenario draw + rule-directed JSON mutations, re-parsed from their MT text) validated through 6–24 operations (full/stop-on-first rules, SwiftMessage::validate, ParsedSwiftMessage::validate, validate_mt plugin alone and in a dataflow Engine, clone-then-validate, snapshots) issued by 1–4 caller threads in a seeded schedule with clock jumps between operations, closing reads (full, stop-on-first, snapshot) on every subject, plus a paired re-execution under a second hash-entropy stream and schedule; the committed corpus of recorded multi-error runs is replayed too, and the micro-schedule stage (three overlapping calls on one recorded subject under one Miri scheduler seed = one evaluation) is counted in evaluations. Non-trivial: at least two operations on a subject whose full error list is non-empty. Distinct: FNV-1a of the canonical event log (seeds, subjects' text digests, every operation with caller, arguments and result digest).",
        "C16" => "one run = one block-4 text (published scenario draw + 0–4 field-level text mutations) tokenised and consumed by 1–4 consumers issuing an interleaved script of requests (base/full/absent tag × option-letter constraint, direct tracker calls, repeated marks, clone-and-continue, splits, repetitive-sequence parses) followed by a drain phase, plus a paired re-execution under a second hash-entropy stream; one run in twelve works on a long text (up to 600 fields) and every run has a simulated monotonic clock tick (slow node); the micro-schedule stage (three consumers tokenising, splitting and draining two texts under one Miri scheduler seed = one evaluation) is counted in evaluations. Non-trivial: at least one variant-letter response and at least one base tag with two or more occurrences. Distinct: FNV-1a of the canonical event log (seeds, text digest, every request with consumer, arguments and response).",
        _ => "",
    }
}

fn assumptions(p: &str) -> Vec<String> {
    let mut v = vec![
        "sampling, not enumeration: a clean batch is evidence, not proof".to_string(),
        "x86_64 Linux; rustc's std resolves getrandom/clock_gettime to the definitions in the simulator binary (checked by the seam self-test at every start)".to_string(),
        "release profile without debug assertions (what downstream users of the crate ship)".to_string(),
    ];
    if p == "C15" {
        v.push("verdict-bearing clock window 2000-01-01T00:00:00Z … 2049-12-31T23:59:59Z: the only interval in which every YYMMDD decoder of the library maps a date back to the day that was written (DESIGN §5 C15)".into());
        v.push("JSON equality: a null member equals an absent member; numbers compare by exact value (no rounding)".into());
    }
    if p == "C13" {
        v.push("subjects are messages the library itself parses from MT text (format-valid, rule-violating or not) and, one in four, messages built in memory by deserialising a mutated scenario draw (judged through the direct entry points; through the plugin only when their text parses back to exactly the same message); a panic inside an operation is reported as a discarded run (C07 territory), not as a C13 violation".into());
    }
    if p == "C16" {
        v.push("texts the independent line tokeniser cannot segment unambiguously are discarded and counted; messages stay below 65 536 fields (16-bit field counter inside the position stamp)".into());
    }
    v
}

/// Determinism block: the same (global seed, run) executed twice in one
/// process at different batch positions, in fresh processes, and with the
/// batch spread differently — fingerprints must match pairwise.
fn determinism(engines: &[&str], pairs: u64, base: u64) -> Result<Value, String> {
    let exe = std::env::current_exe().map_err(|e| format!("{e}"))?;
    let mut res = serde_json::Map::new();
    for eng in engines {
        let g = derive(base, "global", 0);
        let ask = |from: u64, count: u64, g: u64, reverse: bool| -> Result<BTreeMap<u64, u64>, String> {
            let o = Command::new(&exe)
                .args(["fps", eng, &base.to_string(), &g.to_string(), &from.to_string(), &count.to_string(), if reverse { "rev" } else { "fwd" }])
                .output()
                .map_err(|e| format!("{e}"))?;
            if !o.status.success() {
                return Err(format!("fps child failed: {}", String::from_utf8_lossy(&o.stderr)));
            }
            let mut m = BTreeMap::new();
            for l in String::from_utf8_lossy(&o.stdout).lines() {
                let mut it = l.split_whitespace();
                if let (Some(a), Some(b)) = (it.next(), it.next()) {
                    m.insert(a.parse::<u64>().map_err(|e| format!("{e}"))?, u64::from_str_radix(b, 16).map_err(|e| format!("{e}"))?);
                }
            }
            Ok(m)
        };
        // (a) one process, forward order; (b) 16 processes, each a slice, reverse order
        let slices = 16u64;
        let per = pairs.div_ceil(slices);
        let a = std::thread::scope(|s| -> Result<(BTreeMap<u64, u64>, BTreeMap<u64, u64>, BTreeMap<u64, u64>), String> {
            let ask = &ask;
            let ha = s.spawn(move || ask(0, per * slices, g, false));
            let mut handles = vec![];
            for k in 0..slices {
                handles.push(s.spawn(move || ask(k * per, per, g, true)));
            }
            let a = ha.join().map_err(|_| "join".to_string())??;
            let mut b = BTreeMap::new();
            for h in handles.drain(..) {
                b.extend(h.join().map_err(|_| "join".to_string())??);
            }
            // (c) 16 processes, each warmed up under a DIFFERENT global seed
            let mut hc = vec![];
            for k in 0..slices {
                hc.push(s.spawn(move || ask(k * per, per, derive(base, "global", k + 1), false)));
            }
            let mut c = BTreeMap::new();
            for h in hc {
                c.extend(h.join().map_err(|_| "join".to_string())??);
            }
            Ok((a, b, c))
        })?;
        let (fa, fb, fc) = a;
        let global_sensitive = fa.iter().filter(|(i, f)| fc.get(i) != Some(f)).count();
        let mut mismatches = vec![];
        for (i, f) in &fa {
            if fb.get(i) != Some(f) {
                mismatches.push(*i);
            }
        }
        if !mismatches.is_empty() || fa.len() != fb.len() {
            return Err(format!("determinism: engine {eng}: {} of {} runs differ between a single forward process and 16 reverse-order processes (first: run {:?})", mismatches.len(), fa.len(), mismatches.first()));
        }
        res.insert(eng.to_string(), json!({"pairs": fa.len(), "layouts": "1 process forward order vs 16 processes reverse order, all fresh, same global seed", "mismatches": 0,
            "runs_whose_fingerprint_changes_with_the_process_global_seed": global_sensitive}));
    }
    Ok(Value::Object(res))
}

fn main() {
    let args: Vec<String> = std::env::args().collect();
    if std::env::var("MTSIM_TRACE_ENTROPY").is_ok() {
        seam::TRACE.store(1, std::sync::atomic::Ordering::Relaxed);
    }
    let cmd = args.get(1).map(|s| s.as_str()).unwrap_or("");
    match cmd {
        "selftest" => match selftest() {
            Ok(v) => println!("seam self-test ok: {v}"),
            Err(e) => die(&e),
        },
        "check" => {
            let prop = args.get(2).map(|s| s.as_str()).unwrap_or_else(|| die("usage: check <property> <tier>"));
            let tier = std::env::var("VERIF_TIER").ok().or(args.get(3).cloned()).unwrap_or("quick".into());
            let tier = if tier == "thorough" { "thorough" } else { "quick" };
            std::process::exit(check(prop, tier));
        }
        "worker" => {
            if args.len() < 8 {
                die("usage: worker <engine> <base> <p> <workers> <total> <out-prefix>");
            }
            let env = Env::load().unwrap_or_else(|e| die(&e));
            let n = |i: usize| args[i].parse::<u64>().unwrap_or_else(|_| die("bad number"));
            let extra: Vec<u64> = args.get(8).and_then(|f| std::fs::read_to_string(f).ok()).map(|t| t.lines().filter_map(|l| l.trim().parse().ok()).collect()).unwrap_or_default();
            let r = dispatch!(args[2].as_str(), E => worker::<E>(&env, n(3), n(4), n(5), n(6), &PathBuf::from(&args[7]), &extra));
            if let Err(e) = r {
                die(&e);
            }
        }
        "fps" => {
            let env = Env::load().unwrap_or_else(|e| die(&e));
            let n = |i: usize| args[i].parse::<u64>().unwrap_or_else(|_| die("bad number"));
            let mut idx: Vec<u64> = (n(5)..n(5) + n(6)).collect();
            if args.get(7).map(|s| s.as_str()) == Some("rev") {
                idx.reverse();
            }
            let v = dispatch!(args[2].as_str(), E => fingerprints::<E>(&env, n(3), n(4), &idx));
            for (i, f) in v {
                println!("{i} {}", hex(f));
            }
        }
        "selfcheck" => {
            if let Err(e) = selftest() {
                die(&e);
            }
            let pairs = args.get(2).and_then(|s| s.parse().ok()).unwrap_or(2000);
            let base = env_u64("VERIF_SEED").unwrap_or(DEFAULT_SEED);
            match determinism(&["pipeline", "validate-history", "consume-history"], pairs, base) {
                Ok(v) => println!("determinism ok: {v}"),
                Err(e) => die(&e),
            }
        }
        "run" => {
            let env = Env::load().unwrap_or_else(|e| die(&e));
            let n = |i: usize| args[i].parse::<u64>().unwrap_or_else(|_| die("bad number"));
            dispatch!(args[2].as_str(), E => {
                warm_up::<E>(&env, derive(n(3), "global", 0));
                let spec = <E as Engine>::plan(&env, n(3), n(4));
                println!("{}", serde_json::to_string_pretty(&spec).unwrap());
                let (o, _) = <E as Engine>::execute(&env, &spec);
                for l in &o.log { println!("{l}"); }
                println!("counters: {:?}", o.counters);
                println!("nontrivial={} discard={:?} harness={:?}", o.nontrivial, o.discard, o.harness_error);
                if let Some(v) = o.violation { println!("VIOLATION {} :: {}", v.class, v.detail); }
            });
        }
        "export-subjects" => {
            // subjects for the micro-schedule tier (miri/subjects.json): per message type the
            // multi-error messages with the most errors / most distinct codes, taken from the
            // C13 corpus and a seeded batch
            let out_path = args.get(2).unwrap_or_else(|| die("usage: export-subjects <out.json> [runs]"));
            let n_runs: u64 = args.get(3).and_then(|s| s.parse().ok()).unwrap_or(6000);
            let env = Env::load().unwrap_or_else(|e| die(&e));
            let base = env_u64("VERIF_SEED").unwrap_or(DEFAULT_SEED);
            warm_up::<c13::C13>(&env, derive(base, "global", 0));
            let mut specs: Vec<c13::Spec> = load_corpus("C13").into_iter().filter_map(|v| serde_json::from_value(v).ok()).collect();
            for i in 0..n_runs {
                specs.push(<c13::C13 as Engine>::plan(&env, base, i));
            }
            let mut best: BTreeMap<String, Vec<(usize, usize, Value)>> = BTreeMap::new();
            for sp in &specs {
                let (o, _) = <c13::C13 as Engine>::execute(&env, sp);
                if o.violation.is_some() || o.discard.is_some() {
                    continue;
                }
                for a in o.artifacts {
                    // the interpreter needs ~10 s per kilobyte: keep the subjects short
                    if a["text"].as_str().is_none_or(|t| t.len() > 1000) {
                        continue;
                    }
                    let codes: Vec<String> = a["codes"].as_array().map(|c| c.iter().filter_map(|x| x.as_str().map(|s| s.to_string())).collect()).unwrap_or_default();
                    let mut d = codes.clone();
                    d.sort();
                    d.dedup();
                    // prefer many errors of FEW distinct codes (the same rule firing in several transactions) and many distinct codes
                    let e = best.entry(a["mt"].as_str().unwrap_or("").to_string()).or_default();
                    e.push((codes.len(), d.len(), a));
                }
            }
            let mut outv: Vec<Value> = vec![];
            for (_mt, mut v) in best {
                v.sort_by(|a, b| (b.0 - b.1).cmp(&(a.0 - a.1)).then(b.0.cmp(&a.0)));
                if let Some(x) = v.first() {
                    outv.push(x.2.clone());
                }
                v.sort_by(|a, b| b.1.cmp(&a.1).then(b.0.cmp(&a.0)));
                if let Some(x) = v.first() {
                    if !outv.contains(&x.2) {
                        outv.push(x.2.clone());
                    }
                }
            }
            // valid published messages (for the C15 micro mode): the shortest valid draw of every message type
            let mut valid: Vec<(usize, Value)> = vec![];
            let mut publish: Vec<Value> = vec![];
            {
                let clock = ClockCfg::plain();
                let ctx = clock.ctx(derive(base, "export/valid", 0));
                let scs = env.scenarios.clone();
                let r = on_fresh_thread(move || {
                    let _a = seam::attach(&ctx);
                    let mut best: BTreeMap<String, (usize, String)> = BTreeMap::new();
                    let mut classes: BTreeMap<String, (usize, String, String)> = BTreeMap::new();
                    for sc in &scs {
                        let Some(g) = datafake_rs::DataGenerator::from_value(sc.value.clone()).ok().and_then(|g| g.generate().ok()) else { continue };
                        let Ok(text) = mt::json_to_text(&sc.mt, &g) else { continue };
                        let Ok(p) = mt::parse_auto(&text) else { continue };
                        if std::env::var("MTSIM_EXPORT_DEBUG").is_ok() && text.contains("JPY") {
                            eprintln!("DEBUG {} len={} findings={} {:?}", sc.rel, text.len(), mt::vnr(&p, false).len(), text.lines().filter(|l| l.contains("JPY")).collect::<Vec<_>>());
                        }
                        if !mt::vnr(&p, false).is_empty() {
                            continue;
                        }
                        // amount classes for the publish mode: "CCC<digits>,<decimals>" with no / two non-zero / three decimals
                        let b = text.as_bytes();
                        for i in 3..b.len() {
                            if b[i].is_ascii_digit() && b[i - 3..i].iter().all(|c| c.is_ascii_uppercase()) && (i < 4 || !b[i - 4].is_ascii_uppercase()) {
                                let mut j = i;
                                while j < b.len() && b[j].is_ascii_digit() {
                                    j += 1;
                                }
                                if j - i >= 3 && (j == b.len() || b[j] == b'\n' || b[j] == b'\r') && i >= 4 && (b[i - 4] == b':' || b[i - 4].is_ascii_digit()) && text[..i].rfind('\n').is_some_and(|q| text[q + 1..].starts_with(":3")) {
                                    // ":32B:JPY10000" — a currency without minor unit is written without a comma
                                    let e = classes.entry(format!("no-decimals/{}", &text[i - 3..i])).or_insert((usize::MAX, String::new(), String::new()));
                                    if text.len() < e.0 {
                                        *e = (text.len(), sc.mt.clone(), text.clone());
                                    }
                                }
                                if j < b.len() && b[j] == b',' {
                                    let mut k = j + 1;
                                    while k < b.len() && b[k].is_ascii_digit() {
                                        k += 1;
                                    }
                                    let dec = &text[j + 1..k];
                                    let class = match dec.len() {
                                        0 => Some("comma-no-decimals"),
                                        2 if dec != "00" => Some("fraction-2"),
                                        3 if dec != "000" => Some("fraction-3"),
                                        _ => None,
                                    };
                                    if let Some(c) = class {
                                        let e = classes.entry(format!("{c}/{}", &text[i - 3..i])).or_insert((usize::MAX, String::new(), String::new()));
                                        if text.len() < e.0 {
                                            *e = (text.len(), sc.mt.clone(), text.clone());
                                        }
                                    }
                                }
                            }
                        }
                        let e = best.entry(sc.mt.clone()).or_insert((usize::MAX, String::new()));
                        if text.len() < e.0 {
                            *e = (text.len(), text);
                        }
                    }
                    (best, classes)
                });
                if let Ok((best, classes)) = r {
                    // per amount class the shortest text (≤ 1500 bytes), at most two currencies per class
                    let mut per: BTreeMap<String, Vec<(usize, String, String, String)>> = BTreeMap::new();
                    for (k, (len, mtt, text)) in classes {
                        if len <= 1500 {
                            per.entry(k.split('/').next().unwrap_or("").to_string()).or_default().push((len, k, mtt, text));
                        }
                    }
                    for (_, mut v) in per {
                        v.sort();
                        for (_, k, mtt, text) in v.into_iter().take(2) {
                            if !publish.iter().any(|p: &Value| p["text"] == text) {
                                publish.push(json!({"class": k, "mt": mtt, "text": text}));
                            }
                        }
                    }
                    for (mtt, (len, text)) in best {
                        valid.push((len, json!({"mt": mtt, "text": text})));
                    }
                }
            }
            // MT103 and MT101 first (the richest validators), then the 8 shortest of the other types
            valid.sort_by_key(|v| (!(v.1["mt"] == "103" || v.1["mt"] == "101"), v.0));
            let valid: Vec<Value> = valid.into_iter().filter(|v| v.0 <= 1000).take(10).map(|v| v.1).collect();
            std::fs::write(out_path, serde_json::to_string_pretty(&json!({"multi_error": outv, "valid": valid, "publish": publish})).unwrap()).unwrap_or_else(|e| die(&format!("{e}")));
            println!("exported {} multi-error subjects, {} valid messages, {} publish subjects", outv.len(), valid.len(), publish.len());
        }
        "replay" => {
            let path = args.get(2).unwrap_or_else(|| die("usage: replay <file>"));
            if let Err(e) = selftest() {
                die(&e);
            }
            let rf: ReplayFile = serde_json::from_str(&std::fs::read_to_string(path).unwrap_or_else(|e| die(&format!("{path}: {e}")))).unwrap_or_else(|e| die(&format!("{path}: {e}")));
            let env = Env::load().unwrap_or_else(|e| die(&e));
            println!("replaying {} (property {}, engine {}, expected class `{}`)", path, rf.property, rf.engine, rf.expect_class);
            let r = dispatch!(rf.engine.as_str(), E => replay::<E>(&env, &rf));
            match r {
                ReplayResult::Reproduced(v) => {
                    println!("VIOLATION property={} replay={}", rf.property, path);
                    println!("  reproduced exactly: class `{}` digest {}", v.class, hex(v.digest()));
                    println!("  detail: {}", v.detail);
                    std::process::exit(1);
                }
                ReplayResult::Different(v) => {
                    println!("VIOLATION property={} replay={}", rf.property, path);
                    println!("  a violation occurs but differs from the recorded one: class `{}` digest {} (recorded `{}` {})", v.class, hex(v.digest()), rf.expect_class, rf.expect_digest);
                    println!("  detail: {}", v.detail);
                    std::process::exit(1);
                }
                ReplayResult::NoViolation => {
                    println!("replay: no violation — the recorded violation does not occur on this tree");
                }
                ReplayResult::Harness(e) => die(&e),
            }
        }
        _ => {
            eprintln!("usage: mtsim check|worker|replay|selftest|selfcheck|fps|run …");
            std::process::exit(2);
        }
    }
}
