//! Worker loop, shrinking, replay files — generic over the engine.

use crate::sim::*;
use crate::util::*;
use serde::{Deserialize, Serialize};
use serde_json::{json, Value};
use std::collections::{BTreeMap, HashSet};
use std::io::Write;
use std::path::{Path, PathBuf};

pub fn verif_root() -> PathBuf {
    PathBuf::from(std::env::var("MTSIM_VERIF").unwrap_or_else(|_| "/verif".into()))
}

#[derive(Serialize, Deserialize, Clone, Debug)]
pub struct ReplayFile {
    pub format: String,
    pub property: String,
    pub engine: String,
    /// entropy seed of the worker process's warm-up run (process-global one-time state)
    pub global_seed: u64,
    pub spec: Value,
    pub expect_class: String,
    pub expect_digest: String,
    pub expect_detail: String,
    pub found: Value,
    /// runs executed (results ignored) before `spec` in the same process: only
    /// present when the violation depends on state that an earlier run left
    /// behind in the process (a cache, a static) — i.e. on the call history
    #[serde(default)]
    pub prefix: Vec<Value>,
    #[serde(default = "yes")]
    pub reproducible: bool,
}

fn yes() -> bool {
    true
}

#[derive(Serialize, Deserialize, Clone, Debug, Default)]
pub struct FoundViolation {
    pub property: String,
    pub class: String,
    pub detail: String,
    pub digest: String,
    pub replay: String,
    pub run_index: u64,
    pub run_seed_note: String,
    pub shrink_tried: u32,
    pub shrink_accepted: u32,
    #[serde(default)]
    pub history_prefix: usize,
    #[serde(default = "yes")]
    pub reproducible: bool,
}

#[derive(Serialize, Deserialize, Clone, Debug, Default)]
pub struct WorkerReport {
    pub engine: String,
    pub worker: u64,
    pub workers: u64,
    pub global_seed: u64,
    pub runs: u64,
    pub nontrivial_runs: u64,
    pub discarded: u64,
    pub discard_reasons: BTreeMap<String, u64>,
    pub harness_errors: Vec<String>,
    pub counters: BTreeMap<String, u64>,
    pub sim_ns: i128,
    pub violations: Vec<FoundViolation>,
    pub violation_counts: BTreeMap<String, u64>,
    pub samples: Vec<Value>,
    pub wall_s: f64,
    #[serde(default)]
    pub corpus_runs: u64,
    #[serde(default)]
    pub extra_runs: u64,
    #[serde(default)]
    pub amplified_corpus_specs: u64,
    /// (harvest key, explicit spec) of clean runs that reached a rare condition
    #[serde(default)]
    pub candidates: Vec<(String, Value)>,
}

/// Process warm-up under the global entropy seed `g`: pins whatever is
/// initialised once per process (lazy tables, the getrandom crate's probe).
pub fn warm_up<E: Engine>(env: &Env, g: u64) {
    // which scenario (hence which message type) a process touches first is part of the explored
    // state: MTSIM_FIRST_TOUCH=<scenario index> (set by the driver for its first-touch workers),
    // otherwise the scenario the global seed picks
    let nf = env.scenarios.len() as u64;
    let idx = std::env::var("MTSIM_FIRST_TOUCH").ok().and_then(|s| s.parse::<u64>().ok()).unwrap_or(g % nf.max(1));
    // half of the processes also make one default-configuration scenario lookup before anything
    // else, with SWIFT_SCENARIO_PATH unset (its result is ignored): "was the default configuration
    // looked at before the environment was set up" is process history too
    if g % 2 == 1 {
        unsafe { std::env::remove_var("SWIFT_SCENARIO_PATH") };
        let _ = swift_mt_message::ScenarioConfig::default();
        let _ = swift_mt_message::scenario_config::find_scenario_for_message_type_with_config("MT000", &swift_mt_message::ScenarioConfig::default());
    }
    let spec = E::plan(env, g, idx);
    let _ = E::execute(env, &spec);
}

pub struct Shrunk<S> {
    pub spec: S,
    pub violation: Violation,
    pub tried: u32,
    pub accepted: u32,
}

/// Greedy shrinking over the recorded workload/schedule/seam configuration:
/// every candidate is executed for real on fresh threads; it is kept iff it
/// fails with the same violation class.
pub fn shrink<E: Engine>(env: &Env, spec: E::Spec, v: Violation, budget: u32) -> Shrunk<E::Spec> {
    let mut cur = spec;
    let mut curv = v;
    let (mut tried, mut accepted) = (0u32, 0u32);
    'outer: loop {
        for cand in E::shrink_candidates(&cur) {
            if tried >= budget {
                break 'outer;
            }
            tried += 1;
            let (o, resolved) = E::execute(env, &cand);
            if o.harness_error.is_some() {
                continue;
            }
            if let Some(nv) = o.violation {
                if nv.class == curv.class {
                    cur = resolved.unwrap_or(cand);
                    curv = nv;
                    accepted += 1;
                    continue 'outer;
                }
            }
        }
        break;
    }
    Shrunk { spec: cur, violation: curv, tried, accepted }
}

pub fn write_replay<E: Engine>(g: u64, spec: &E::Spec, v: &Violation, found: Value, prefix: &[E::Spec], reproducible: bool) -> Result<String, String> {
    let dir = verif_root().join("replays");
    std::fs::create_dir_all(&dir).map_err(|e| format!("{e}"))?;
    let spec_v = serde_json::to_value(spec).map_err(|e| format!("{e}"))?;
    let name = format!("{}-{}-{}.json", E::PROPERTY, hex(fnv_str(&spec_v.to_string())), &hex(v.digest())[..8]);
    let path = dir.join(name);
    let rf = ReplayFile {
        format: "mtsim-replay-1".into(),
        property: E::PROPERTY.into(),
        engine: E::ID.into(),
        global_seed: g,
        spec: spec_v,
        expect_class: v.class.clone(),
        expect_digest: hex(v.digest()),
        expect_detail: v.detail.clone(),
        found,
        prefix: prefix.iter().map(|p| serde_json::to_value(p).unwrap_or(Value::Null)).collect(),
        reproducible,
    };
    std::fs::write(&path, serde_json::to_string_pretty(&rf).map_err(|e| format!("{e}"))?).map_err(|e| format!("{e}"))?;
    Ok(path.to_string_lossy().to_string())
}

fn write_set(path: &Path, set: &HashSet<u64>) -> Result<(), String> {
    let mut f = std::io::BufWriter::new(std::fs::File::create(path).map_err(|e| format!("{e}"))?);
    for v in set {
        f.write_all(&v.to_le_bytes()).map_err(|e| format!("{e}"))?;
    }
    f.flush().map_err(|e| format!("{e}"))
}

pub fn read_set(path: &Path, into: &mut HashSet<u64>) -> Result<(), String> {
    let b = std::fs::read(path).map_err(|e| format!("{}: {e}", path.display()))?;
    for c in b.chunks_exact(8) {
        into.insert(u64::from_le_bytes(c.try_into().unwrap()));
    }
    Ok(())
}

/// One worker process: warm-up under its global seed, then its share of runs.
/// Corpus of recorded runs (explicit specs) that reached rare conditions on a
/// clean tree; replayed by every check in addition to the seeded batch.
pub fn load_corpus(property: &str) -> Vec<Value> {
    let path = verif_root().join("corpus").join(format!("{property}.jsonl"));
    let Ok(text) = std::fs::read_to_string(path) else { return vec![] };
    text.lines().filter_map(|l| serde_json::from_str::<Value>(l).ok()).filter_map(|v| v.get("spec").cloned()).collect()
}

pub fn worker<E: Engine>(env: &Env, base: u64, p: u64, workers: u64, total: u64, out_prefix: &Path, extra: &[u64]) -> Result<(), String> {
    let t0 = std::time::Instant::now();
    let g = derive(base, "global", p);
    warm_up::<E>(env, g);
    let mut rep = WorkerReport { engine: E::ID.into(), worker: p, workers, global_seed: g, ..Default::default() };
    let (mut fps, mut shapes, mut contents) = (HashSet::new(), HashSet::new(), HashSet::new());
    let max_shrunk_classes = 6;
    let mut recent: std::collections::VecDeque<E::Spec> = std::collections::VecDeque::new();
    let mut corpus: Vec<E::Spec> = if std::env::var("MTSIM_NO_CORPUS").is_ok() { vec![] } else { load_corpus(E::PROPERTY).into_iter().filter_map(|v| serde_json::from_value(v).ok()).collect() };
    // every recorded run is also replayed in a scaled-up variant (large batches), where the engine has one
    let amplified: Vec<E::Spec> = corpus.iter().filter_map(|s| E::amplify(s)).collect();
    rep.amplified_corpus_specs = amplified.len() as u64;
    corpus.extend(amplified);
    let mut harvest_seen: std::collections::HashMap<String, u32> = std::collections::HashMap::new();
    // run sources: the seeded batch [0,total), then the corpus, then extra run indices
    // (deeper exploration of scenario files that changed since the corpus was recorded)
    let n_all = total + corpus.len() as u64 + extra.len() as u64;
    let mut i = p % workers.max(1);
    while i < n_all {
        let from_corpus = i >= total && i < total + corpus.len() as u64;
        let spec = if from_corpus {
            corpus[(i - total) as usize].clone()
        } else if i >= total + corpus.len() as u64 {
            rep.extra_runs += 1;
            E::plan(env, base, extra[(i - total - corpus.len() as u64) as usize])
        } else {
            E::plan(env, base, i)
        };
        let (o, resolved) = E::execute(env, &spec);
        rep.runs += 1;
        if from_corpus {
            rep.corpus_runs += 1;
        }
        if !from_corpus && o.violation.is_none() && o.discard.is_none() && o.harness_error.is_none() {
            for k in &o.harvest {
                let n = harvest_seen.entry(k.clone()).or_insert(0);
                *n += 1;
                if *n <= 2 && rep.candidates.len() < 4000 {
                    let sv = serde_json::to_value(resolved.as_ref().unwrap_or(&spec)).unwrap_or(Value::Null);
                    rep.candidates.push((k.clone(), sv));
                }
            }
        }
        if let Some(h) = &o.harness_error {
            if rep.harness_errors.len() < 10 {
                rep.harness_errors.push(format!("run {i}: {h}"));
            }
            i += workers;
            continue;
        }
        for (k, v) in &o.counters {
            *rep.counters.entry(k.clone()).or_insert(0) += v;
        }
        rep.sim_ns += o.sim_ns as i128;
        if let Some(d) = &o.discard {
            rep.discarded += 1;
            *rep.discard_reasons.entry(d.clone()).or_insert(0) += 1;
        } else {
            shapes.insert(o.shape_digest);
            if o.nontrivial {
                rep.nontrivial_runs += 1;
                fps.insert(o.fingerprint());
                contents.insert(o.content_digest);
            }
            if rep.samples.len() < 3 && o.nontrivial && o.violation.is_none() && (i / workers) % 7 == 0 {
                rep.samples.push(json!({"run_index": i, "spec": E::describe(&spec), "log": o.log}));
            }
        }
        if let Some(v) = o.violation {
            let n = rep.violation_counts.entry(v.class.clone()).or_insert(0);
            *n += 1;
            if *n == 1 && rep.violations.len() < max_shrunk_classes {
                let start = resolved.unwrap_or(spec.clone());
                let s = shrink::<E>(env, start.clone(), v.clone(), 300);
                // the minimised spec must fail again, identically, before it is reported
                let (again, _) = E::execute(env, &s.spec);
                let ok = again.violation.as_ref().is_some_and(|a| a.class == s.violation.class && a.digest() == s.violation.digest());
                let (mut rspec, mut rviol, mut prefix, mut reproducible) = (s.spec.clone(), s.violation.clone(), Vec::<E::Spec>::new(), true);
                if !ok {
                    // The run is not a function of its spec alone: the violation depends on
                    // state an earlier run left behind in this process. Search the recent
                    // history for the shortest prefix of runs that brings it back.
                    reproducible = false;
                    rspec = start.clone();
                    rviol = v.clone();
                    let hist: Vec<E::Spec> = recent.iter().cloned().collect();
                    // does `pre` (executed first, results ignored) bring the violation back, twice, identically?
                    let mut brings_back = |pre: &[E::Spec], rviol: &mut Violation| -> bool {
                        let mut first: Option<Violation> = None;
                        for _attempt in 0..2 {
                            for ps in pre {
                                let _ = E::execute(env, ps);
                            }
                            let (o, _) = E::execute(env, &start);
                            match (o.violation, &first) {
                                (Some(a), None) if a.class == v.class => first = Some(a),
                                (Some(a), Some(f)) if a.class == v.class && a.digest() == f.digest() => {
                                    *rviol = a;
                                    return true;
                                }
                                _ => return false,
                            }
                        }
                        false
                    };
                    // shortest recent suffix first (the usual case: the previous run left something behind) …
                    let mut found: Option<Vec<E::Spec>> = None;
                    for depth in [1usize, 2, 3, 8, 32, hist.len()] {
                        let depth = depth.min(hist.len());
                        if depth == 0 {
                            break;
                        }
                        let pre = hist[hist.len() - depth..].to_vec();
                        if brings_back(&pre, &mut rviol) {
                            found = Some(pre);
                            break;
                        }
                    }
                    // … then drop whatever part of that history is not needed (chunks, then single runs)
                    if let Some(mut pre) = found {
                        let mut chunk = pre.len() / 2;
                        while chunk >= 1 && pre.len() > 1 {
                            let mut k = 0;
                            let mut removed_any = false;
                            while k < pre.len() && pre.len() > 1 {
                                let end = (k + chunk).min(pre.len());
                                let mut cand = pre.clone();
                                cand.drain(k..end);
                                if !cand.is_empty() && brings_back(&cand, &mut rviol) {
                                    pre = cand;
                                    removed_any = true;
                                } else {
                                    k = end;
                                }
                            }
                            if !removed_any || chunk == 1 {
                                if chunk == 1 {
                                    break;
                                }
                            }
                            chunk /= 2;
                        }
                        prefix = pre;
                        reproducible = true;
                    }
                    if !reproducible {
                        prefix = hist.iter().rev().take(8).rev().cloned().collect();
                    }
                }
                let path = write_replay::<E>(g, &rspec, &rviol, json!({"base_seed": base, "run_index": i, "worker": p, "workers": workers, "shrink_tried": s.tried, "shrink_accepted": s.accepted}), &prefix, reproducible)?;
                rep.violations.push(FoundViolation {
                    property: E::PROPERTY.into(),
                    class: rviol.class.clone(),
                    detail: rviol.detail.clone(),
                    digest: hex(rviol.digest()),
                    replay: path,
                    run_index: i,
                    run_seed_note: format!("base={base} index={i}"),
                    shrink_tried: s.tried,
                    shrink_accepted: s.accepted,
                    history_prefix: prefix.len(),
                    reproducible,
                });
            }
        }
        recent.push_back(spec);
        if recent.len() > 256 {
            recent.pop_front();
        }
        i += workers;
    }
    rep.wall_s = t0.elapsed().as_secs_f64();
    let pre = out_prefix.to_string_lossy().to_string();
    write_set(Path::new(&format!("{pre}.fps")), &fps)?;
    write_set(Path::new(&format!("{pre}.shapes")), &shapes)?;
    write_set(Path::new(&format!("{pre}.contents")), &contents)?;
    std::fs::write(format!("{pre}.json"), serde_json::to_string(&rep).map_err(|e| format!("{e}"))?).map_err(|e| format!("{e}"))?;
    Ok(())
}

/// Fingerprints of runs `idx` (for the determinism block): one line per run.
pub fn fingerprints<E: Engine>(env: &Env, base: u64, g: u64, idx: &[u64]) -> Vec<(u64, u64)> {
    warm_up::<E>(env, g);
    idx.iter()
        .map(|i| {
            let spec = E::plan(env, base, *i);
            let (o, _) = E::execute(env, &spec);
            let mut fp = o.fingerprint();
            if let Some(v) = &o.violation {
                fp ^= v.digest();
            }
            if let Some(d) = &o.discard {
                fp ^= fnv_str(d);
            }
            (*i, fp)
        })
        .collect()
}

pub enum ReplayResult {
    Reproduced(Violation),
    Different(Violation),
    NoViolation,
    Harness(String),
}

pub fn replay<E: Engine>(env: &Env, rf: &ReplayFile) -> ReplayResult {
    let spec: E::Spec = match serde_json::from_value(rf.spec.clone()) {
        Ok(s) => s,
        Err(e) => return ReplayResult::Harness(format!("replay spec does not deserialise: {e}")),
    };
    warm_up::<E>(env, rf.global_seed);
    for (k, ps) in rf.prefix.iter().enumerate() {
        match serde_json::from_value::<E::Spec>(ps.clone()) {
            Ok(ps) => {
                let _ = E::execute(env, &ps);
                println!("  | (history prefix run {k} executed)");
            }
            Err(e) => return ReplayResult::Harness(format!("prefix spec does not deserialise: {e}")),
        }
    }
    let (o, _) = E::execute(env, &spec);
    for l in &o.log {
        println!("  | {l}");
    }
    if let Some(h) = o.harness_error {
        return ReplayResult::Harness(h);
    }
    match o.violation {
        Some(v) if v.class == rf.expect_class && hex(v.digest()) == rf.expect_digest => ReplayResult::Reproduced(v),
        Some(v) => ReplayResult::Different(v),
        None => ReplayResult::NoViolation,
    }
}
