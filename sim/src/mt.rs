//! Type dispatch over the 30 message types (the library exposes typed
//! generics; the simulator works with the auto-detected wrapper).

use serde_json::Value;
use swift_mt_message::messages::*;
use swift_mt_message::{
    ParsedSwiftMessage, SwiftMessage, SwiftMessageBody, SwiftParser, SwiftValidationError,
    ValidationResult,
};

/// `with_type!(mt_str, T => expr)` evaluates `expr` with `T` bound to the body type.
#[macro_export]
macro_rules! with_type {
    ($mt:expr, $T:ident => $e:expr, $else:expr) => {
        match $mt {
            "101" => { type $T = MT101; $e }
            "103" => { type $T = MT103; $e }
            "104" => { type $T = MT104; $e }
            "107" => { type $T = MT107; $e }
            "110" => { type $T = MT110; $e }
            "111" => { type $T = MT111; $e }
            "112" => { type $T = MT112; $e }
            "190" => { type $T = MT190; $e }
            "191" => { type $T = MT191; $e }
            "192" => { type $T = MT192; $e }
            "196" => { type $T = MT196; $e }
            "199" => { type $T = MT199; $e }
            "200" => { type $T = MT200; $e }
            "202" => { type $T = MT202; $e }
            "204" => { type $T = MT204; $e }
            "205" => { type $T = MT205; $e }
            "210" => { type $T = MT210; $e }
            "290" => { type $T = MT290; $e }
            "291" => { type $T = MT291; $e }
            "292" => { type $T = MT292; $e }
            "296" => { type $T = MT296; $e }
            "299" => { type $T = MT299; $e }
            "900" => { type $T = MT900; $e }
            "910" => { type $T = MT910; $e }
            "920" => { type $T = MT920; $e }
            "935" => { type $T = MT935; $e }
            "940" => { type $T = MT940; $e }
            "941" => { type $T = MT941; $e }
            "942" => { type $T = MT942; $e }
            "950" => { type $T = MT950; $e }
            _ => $else,
        }
    };
}

/// `on_parsed!(&parsed, m => expr)`: `m` is `&SwiftMessage<T>` of whatever variant.
#[macro_export]
macro_rules! on_parsed {
    ($p:expr, $m:ident => $e:expr) => {
        match $p {
            ParsedSwiftMessage::MT101($m) => $e,
            ParsedSwiftMessage::MT103($m) => $e,
            ParsedSwiftMessage::MT104($m) => $e,
            ParsedSwiftMessage::MT107($m) => $e,
            ParsedSwiftMessage::MT110($m) => $e,
            ParsedSwiftMessage::MT111($m) => $e,
            ParsedSwiftMessage::MT112($m) => $e,
            ParsedSwiftMessage::MT190($m) => $e,
            ParsedSwiftMessage::MT191($m) => $e,
            ParsedSwiftMessage::MT192($m) => $e,
            ParsedSwiftMessage::MT196($m) => $e,
            ParsedSwiftMessage::MT199($m) => $e,
            ParsedSwiftMessage::MT200($m) => $e,
            ParsedSwiftMessage::MT202($m) => $e,
            ParsedSwiftMessage::MT204($m) => $e,
            ParsedSwiftMessage::MT205($m) => $e,
            ParsedSwiftMessage::MT210($m) => $e,
            ParsedSwiftMessage::MT290($m) => $e,
            ParsedSwiftMessage::MT291($m) => $e,
            ParsedSwiftMessage::MT292($m) => $e,
            ParsedSwiftMessage::MT296($m) => $e,
            ParsedSwiftMessage::MT299($m) => $e,
            ParsedSwiftMessage::MT900($m) => $e,
            ParsedSwiftMessage::MT910($m) => $e,
            ParsedSwiftMessage::MT920($m) => $e,
            ParsedSwiftMessage::MT935($m) => $e,
            ParsedSwiftMessage::MT940($m) => $e,
            ParsedSwiftMessage::MT941($m) => $e,
            ParsedSwiftMessage::MT942($m) => $e,
            ParsedSwiftMessage::MT950($m) => $e,
        }
    };
}

fn typed_to_text<T>(g: &Value) -> Result<String, String>
where
    T: SwiftMessageBody + serde::de::DeserializeOwned,
{
    let m: SwiftMessage<T> = serde_json::from_value(g.clone()).map_err(|e| format!("json: {e}"))?;
    Ok(m.to_mt_message())
}

/// JSON (as produced by a scenario draw, possibly mutated) → MT text, through
/// the library's own typed deserialiser and serialiser.
pub fn json_to_text(mt: &str, g: &Value) -> Result<String, String> {
    with_type!(mt, T => typed_to_text::<T>(g), Err(format!("unknown type {mt}")))
}

/// JSON → the typed message itself, wrapped as the auto-detected wrapper would wrap it — a message
/// that was built in memory (deserialised), never serialised or parsed from text.
pub fn json_to_typed(mt: &str, g: &Value) -> Result<ParsedSwiftMessage, String> {
    macro_rules! wrap {
        ($($code:literal => $V:ident),*) => {
            match mt {
                $($code => serde_json::from_value::<SwiftMessage<$V>>(g.clone()).map(|m| ParsedSwiftMessage::$V(Box::new(m))).map_err(|e| format!("json: {e}")),)*
                _ => Err(format!("unknown type {mt}")),
            }
        };
    }
    wrap!("101" => MT101, "103" => MT103, "104" => MT104, "107" => MT107, "110" => MT110, "111" => MT111, "112" => MT112, "190" => MT190, "191" => MT191, "192" => MT192, "196" => MT196, "199" => MT199,
          "200" => MT200, "202" => MT202, "204" => MT204, "205" => MT205, "210" => MT210, "290" => MT290, "291" => MT291, "292" => MT292, "296" => MT296, "299" => MT299,
          "900" => MT900, "910" => MT910, "920" => MT920, "935" => MT935, "940" => MT940, "941" => MT941, "942" => MT942, "950" => MT950)
}

/// `validate_network_rules` on the wrapped message body.
pub fn vnr(p: &ParsedSwiftMessage, stop: bool) -> Vec<SwiftValidationError> {
    on_parsed!(p, m => m.fields.validate_network_rules(stop))
}

/// `SwiftMessage::<T>::validate` on the wrapped message.
pub fn swift_validate(p: &ParsedSwiftMessage) -> ValidationResult {
    on_parsed!(p, m => m.validate())
}

/// (JSON of the wrapped `SwiftMessage<T>`, its MT text).
pub fn snapshot(p: &ParsedSwiftMessage) -> (Value, String) {
    on_parsed!(p, m => (serde_json::to_value(&**m).unwrap_or(Value::Null), m.to_mt_message()))
}

pub fn parse_auto(text: &str) -> Result<ParsedSwiftMessage, String> {
    SwiftParser::parse_auto(text).map_err(|e| format!("{e}"))
}
