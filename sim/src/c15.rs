//! `pipeline` engine — property C15.
//!
//! System: the real dataflow `Engine` with the four real plugin handlers
//! (generate_mt → publish_mt → validate_mt → parse_mt), or the library's
//! `generate_sample_with_config` path, run under a simulated entropy source
//! (every random draw, uuid, hash key) and a simulated wall clock (the `date`
//! generator *is* `Utc::now()`), with clock faults.

use crate::scen;
use crate::seam;
use crate::sim::*;
use crate::util::*;
use crate::with_type;
use dataflow_rs::engine::{AsyncFunctionHandler, Message, Workflow};
use serde::{Deserialize, Serialize};
use serde_json::{json, Value};
use dataflow_rs::engine::FunctionConfig;
use std::collections::HashMap;
use std::sync::{mpsc, Arc, Mutex};
use swift_mt_message::messages::*;
use swift_mt_message::plugin::register_swift_mt_functions;
use swift_mt_message::{ScenarioConfig, SwiftMessageBody, SwiftParser};

#[derive(Serialize, Deserialize, Clone, Debug)]
pub struct Spec {
    pub run_seed: u64,
    pub scenario: String,
    pub scenario_digest: String,
    /// "plugin" (dataflow workflow) or "sample" (generate_sample_with_config)
    pub path: String,
    pub entropy_seed: u64,
    pub clock: ClockCfg,
    /// path "interleaved": further pipelines (scenario files) running next to `scenario`
    #[serde(default)]
    pub more_pipelines: Vec<String>,
    /// path "interleaved": caller threads, and the schedule as (pipeline, task 0..3 = generate/publish/validate/parse, caller)
    #[serde(default)]
    pub callers: usize,
    #[serde(default)]
    pub steps: Vec<(usize, usize, usize)>,
    /// path "interleaved": (pipeline, kind) — the published text of that pipeline is corrupted by the
    /// harness before its validate/parse tasks run (a garbled message); that pipeline is not judged,
    /// every other pipeline must be unaffected
    #[serde(default)]
    pub poison: Option<(usize, u8)>,
    /// path "interleaved": pipelines that run a second pass over the SAME dataflow Message
    #[serde(default)]
    pub second_pass: Vec<usize>,
    /// configuration: a tracing subscriber that wants every level is installed (diagnostics on)
    #[serde(default)]
    pub diag: bool,
    /// configuration: the process's local time zone (POSIX TZ string) while the run executes; None = UTC
    #[serde(default)]
    pub tz: Option<String>,
    /// path "interleaved": pipelines whose publish_mt converts in place (source field == target field)
    #[serde(default)]
    pub in_place: Vec<usize>,
    /// adversarial draws: (n-th pinnable generator node of the scenario, choice) — that generator
    /// "draws" a boundary value of its own range (a BIC starting with XXX, an all-digit
    /// alphanumeric with a leading zero, the smallest number of a range, …) instead of a random one
    #[serde(default)]
    pub pins: Vec<(usize, usize)>,
    /// path "sample": the scenario configuration has two base paths — an overlay that has every
    /// message-type directory but none of the shipped scenarios, then the shipped directory
    #[serde(default)]
    pub overlay: bool,
    /// path "sample": which public sample API is used — 0 generate_sample_with_config, 1 the
    /// SampleGenerator builder, 2 generate_sample with the paths taken from SWIFT_SCENARIO_PATH
    #[serde(default)]
    pub sample_api: u8,
    /// path "interleaved": the Message's target fields already hold objects from earlier use
    /// (a reused pipeline message) before the first task runs
    #[serde(default)]
    pub stale_targets: bool,
    /// path "sample": before the typed parse, the same thread has a message rejected by parse_auto
    /// (1 = unsupported message type in block 2, 2 = damaged block 1) — an earlier failure on this thread
    #[serde(default)]
    pub prior_reject: u8,
}

/// An overlay scenario directory: `<verif>/work/overlay/mtNNN/zz_overlay_only.json` for every type.
fn ensure_overlay(all: &[scen::Scenario]) -> std::path::PathBuf {
    let root = crate::batch::verif_root().join("work").join("overlay");
    let mut seen = std::collections::BTreeSet::new();
    for sc in all {
        if seen.insert(sc.mt.clone()) {
            let d = root.join(format!("mt{}", sc.mt));
            let f = d.join("zz_overlay_only.json");
            if !f.exists() {
                let _ = std::fs::create_dir_all(&d);
                let _ = std::fs::write(&f, sc.value.to_string());
            }
        }
    }
    root
}

/// A legal extreme of a datafake generator's range, or None if the generator is not one whose
/// range is modelled here (ranges read off datafake-rs 0.2.1 `operators/fake.rs`).
fn boundary_draw(args: &[Value], choice: usize) -> Option<Value> {
    let kind = args.first()?.as_str()?;
    let s = |x: String| Some(Value::String(x));
    match kind {
        // [A-Z]{3}[AEIOU]<ISO 3166 country>[A-Z]1
        "bic8" => s(["XXXAUSM1", "AAAEADA1", "ZZZUZWZ1", "NOSOUSX1", "XXXEBWL1", "BICAFRB1"][choice % 6].to_string()),
        "alphanumeric" => {
            let lo = args.get(1).and_then(|v| v.as_u64()).unwrap_or(10) as usize;
            let hi = args.get(2).and_then(|v| v.as_u64()).unwrap_or(lo as u64) as usize;
            let len = if choice % 2 == 0 { lo } else { hi };
            let len = len.max(1);
            match (choice / 2) % 5 {
                0 => s(format!("00{}", "1234567890123456789012345678901234".chars().take(len.saturating_sub(2)).collect::<String>()).chars().take(len).collect()),
                1 => s("0".repeat(len)),
                2 => s("Z".repeat(len)),
                3 => s("9".repeat(len)),
                _ => s(format!("0{}", "A".repeat(len - 1))),
            }
        }
        "u8" | "u16" | "u32" | "u64" | "i8" | "i16" | "i32" | "i64" => {
            if args.len() != 3 {
                return None;
            }
            let (lo, hi) = (args[1].as_i64()?, args[2].as_i64()?);
            let mut cands = vec![lo, hi, (lo + 1).min(hi), (hi - 1).max(lo)];
            let mut p = 10i64;
            while p <= hi && p > 0 {
                if p >= lo {
                    cands.push(p);
                }
                if p - 1 >= lo && p - 1 <= hi {
                    cands.push(p - 1);
                }
                p = p.saturating_mul(10);
            }
            Some(json!(cands[choice % cands.len()]))
        }
        // <country><check 10..98><18 digits>
        "iban" => {
            let c = args.get(1).and_then(|v| v.as_str()).unwrap_or("DE");
            s(match choice % 3 {
                0 => format!("{c}10{}", "0".repeat(18)),
                1 => format!("{c}98{}", "9".repeat(18)),
                _ => format!("{c}55000000000000000001"),
            })
        }
        // 18 of [0-9A-Z] + check 10..98
        "lei" => s(match choice % 3 {
            0 => format!("{}10", "0".repeat(18)),
            1 => format!("{}98", "Z".repeat(18)),
            _ => "000000000000000000A55".chars().take(18).collect::<String>() + "55",
        }),
        _ => None,
    }
}

/// Paths of the scenario's pinnable `{"fake": [...]}` nodes, in document order.
fn pinnable(v: &Value, path: &mut Vec<String>, out: &mut Vec<Vec<String>>) {
    match v {
        Value::Object(o) => {
            if let Some(Value::Array(a)) = o.get("fake") {
                if o.len() == 1 && boundary_draw(a, 0).is_some() {
                    out.push(path.clone());
                    return;
                }
            }
            for (k, x) in o {
                path.push(k.clone());
                pinnable(x, path, out);
                path.pop();
            }
        }
        Value::Array(a) => {
            for (i, x) in a.iter().enumerate() {
                path.push(i.to_string());
                pinnable(x, path, out);
                path.pop();
            }
        }
        _ => {}
    }
}

fn apply_pins(scenario: &Value, pins: &[(usize, usize)]) -> (Value, usize) {
    let mut v = scenario.clone();
    let mut nodes = vec![];
    pinnable(&v, &mut vec![], &mut nodes);
    let mut applied = 0;
    if nodes.is_empty() {
        return (v, 0);
    }
    let ptr_of = |path: &Vec<String>| format!("/{}", path.iter().map(|k| k.replace('~', "~0").replace('/', "~1")).collect::<Vec<_>>().join("/"));
    for (nth, choice) in pins {
        let path = &nodes[nth % nodes.len()];
        let ptr = ptr_of(path);
        let args = v.pointer(&ptr).and_then(|n| n.get("fake")).and_then(|a| a.as_array()).cloned();
        let Some(args) = args else { continue };
        if *choice >= 1_000_000 {
            // a coincidence of independent draws: every generator with the same arguments draws the same value
            let Some(b) = boundary_draw(&args, *choice) else { continue };
            for other in &nodes {
                let op = ptr_of(other);
                if v.pointer(&op).and_then(|n| n.get("fake")).and_then(|a| a.as_array()) == Some(&args) {
                    if let Some(slot) = v.pointer_mut(&op) {
                        *slot = b.clone();
                        applied += 1;
                    }
                }
            }
        } else if let Some(slot) = v.pointer_mut(&ptr) {
            if let Some(b) = boundary_draw(&args, *choice) {
                *slot = b;
                applied += 1;
            }
        }
    }
    (v, applied)
}

pub struct C15;

const TASKS: [&str; 4] = ["generate_mt", "publish_mt", "validate_mt", "parse_mt"];

fn task_config(t: usize, in_place: bool) -> FunctionConfig {
    let (j, m) = if in_place { ("document", "document") } else { ("sample_json", "sample_mt") };
    let input = match t {
        0 => json!({"target": j}),
        1 => json!({"source": j, "target": m}),
        2 => json!({"source": m, "target": "validation_result"}),
        _ => json!({"source": m, "target": "mt_json"}),
    };
    FunctionConfig::Custom { name: TASKS[t].into(), input }
}

fn run_task(t: usize, msg: &mut Message, in_place: bool) -> Result<(), String> {
    let cfg = task_config(t, in_place);
    let dl = Arc::new(datalogic_rs::DataLogic::new());
    let r = match t {
        0 => block_on(swift_mt_message::plugin::Generate.execute(msg, &cfg, dl)),
        1 => block_on(swift_mt_message::plugin::Publish.execute(msg, &cfg, dl)),
        2 => block_on(swift_mt_message::plugin::Validate.execute(msg, &cfg, dl)),
        _ => block_on(swift_mt_message::plugin::Parse.execute(msg, &cfg, dl)),
    };
    match r {
        Ok((Ok(_), _)) => Ok(()),
        Ok((Err(e), _)) => Err(format!("{e:?}")),
        Err(h) => Err(format!("HARNESS {h}")),
    }
}

/// Several pipelines whose tasks are interleaved by the scheduler across caller
/// threads: the four plugin handlers are driven directly (they are the public
/// plugin API), one task at a time, exactly one thread runnable at any moment.
/// validate_mt and parse_mt both only read `sample_mt`, so either order is a
/// legal workflow.
fn run_interleaved(scs: &[scen::Scenario], spec: &Spec, ctx: &Arc<seam::RunCtx>, out: &mut Outcome) {
    let k = spec.callers.clamp(1, 3);
    let msgs: Arc<Vec<Mutex<Message>>> = Arc::new(
        scs.iter()
            .map(|s| {
                let mut m = Message::from_value(&s.value);
                if spec.stale_targets {
                    // what an earlier use of the same Message may have left under the target names
                    let stale = json!({"leftover_member": {"x": 1}, "fields": {"99Z": "stale", "20": {"reference": "STALE"}}, "user_header": {"unique_end_to_end_reference": "00000000-0000-4000-8000-000000000000"}});
                    if let Some(o) = m.data_mut().as_object_mut() {
                        o.insert("mt_json".into(), stale.clone());
                        o.insert("validation_result".into(), json!({"valid": false, "errors": ["stale finding"], "stale": true}));
                        o.insert("sample_json".into(), stale);
                    }
                    m.invalidate_context_cache();
                }
                Mutex::new(m)
            })
            .collect(),
    );
    if spec.stale_targets {
        out.count("config.message_with_stale_target_fields", 1);
    }
    let mut cmd_tx = vec![];
    let mut resp_rx = vec![];
    let mut handles = vec![];
    for _ in 0..k {
        let (ctx_c, msgs_c) = (ctx.clone(), msgs.clone());
        let (tx, rx) = mpsc::channel::<Option<(usize, usize)>>();
        let (rtx, rrx) = mpsc::channel::<Result<(), String>>();
        cmd_tx.push(tx);
        resp_rx.push(rrx);
        let diag = spec.diag;
        let in_place_c: Vec<usize> = spec.in_place.iter().map(|x| x % scs.len()).collect();
        handles.push(std::thread::spawn(move || {
            let _a = seam::attach(&ctx_c);
            while let Ok(Some((p, t))) = rx.recv() {
                let r = std::panic::catch_unwind(std::panic::AssertUnwindSafe(|| {
                    let mut m = msgs_c[p].lock().unwrap_or_else(|e| e.into_inner());
                    with_diag(diag, || run_task(t, &mut m, in_place_c.contains(&p)))
                }))
                .unwrap_or_else(|p| Err(format!("PANIC {}", p.downcast_ref::<String>().cloned().or(p.downcast_ref::<&str>().map(|s| s.to_string())).unwrap_or_default())));
                if rtx.send(r).is_err() {
                    break;
                }
            }
        }));
    }
    let n = scs.len();
    let mut done = vec![[false; 4]; n];
    let mut failed: Vec<Option<(usize, String)>> = vec![None; n];
    let poisoned: Option<usize> = spec.poison.map(|(p, _)| p % n).filter(|_| n > 1);
    let in_place: Vec<bool> = (0..n).map(|p| spec.in_place.iter().any(|x| x % n == p)).collect();
    let mut saved_generated: Vec<Value> = vec![Value::Null; n];
    let mut passes_left: Vec<u8> = (0..n).map(|p| if spec.second_pass.iter().any(|x| x % n == p) && Some(p) != poisoned { 1 } else { 0 }).collect();
    // the recorded schedule, then whatever is still missing in canonical order (twice: second passes)
    let mut steps = spec.steps.clone();
    for _ in 0..2 {
        for p in 0..n {
            for t in 0..4 {
                steps.push((p, t, p));
            }
        }
    }
    let mut seq = 0;
    for (p, t, c) in steps {
        let (p, t, c) = (p % n, t % 4, c % k);
        let ready = match t {
            0 => true,
            1 => done[p][0],
            _ => done[p][1],
        };
        if done[p][t] || !ready || failed[p].is_some() {
            continue;
        }
        if cmd_tx[c].send(Some((p, t))).is_err() {
            out.harness_error = Some("caller thread gone".into());
            break;
        }
        let r = resp_rx[c].recv().unwrap_or(Err("HARNESS caller thread gone".into()));
        out.log.push(format!("{seq} c{c} p{p} {} -> {}", TASKS[t], if r.is_ok() { "ok".to_string() } else { "error".to_string() }));
        seq += 1;
        done[p][t] = true;
        if t == 0 && in_place[p] && r.is_ok() {
            // the in-place conversion will overwrite the generated JSON: keep a copy for the round-trip comparison
            let m = msgs[p].lock().unwrap_or_else(|e| e.into_inner());
            saved_generated[p] = m.data().get("document").cloned().unwrap_or(Value::Null);
            out.count("config.publish_in_place_same_source_and_target", 1);
        }
        if let Err(e) = r {
            if let Some(h) = e.strip_prefix("HARNESS ") {
                out.harness_error = Some(h.to_string());
                break;
            }
            if Some(p) == poisoned {
                if t >= 2 {
                    out.count("fault.message.corrupted_text_rejected_by_a_task", 1);
                }
            } else {
                failed[p] = Some((t, e));
            }
        }
        // fault: garble the published text of the poisoned pipeline before anyone reads it
        if Some(p) == poisoned && t == 1 {
            let kind = spec.poison.map(|x| x.1).unwrap_or(0);
            let mut m = msgs[p].lock().unwrap_or_else(|e| e.into_inner());
            let mt_key = if in_place[p] { "document" } else { "sample_mt" };
            let text = m.data().get(mt_key).and_then(|v| v.as_str()).unwrap_or("").to_string();
            let garbled = match kind % 4 {
                0 => text.chars().take(text.chars().count() * 3 / 5).collect::<String>(),
                1 => text.replacen(":20:", ":2Z:", 1),
                2 => text.replacen("{4:\n", "{4:\n:99Z:GARBAGE\n", 1),
                _ => text.replacen("{2:", "{9:", 1),
            };
            if let Some(o) = m.data_mut().as_object_mut() {
                o.insert(mt_key.into(), Value::String(garbled));
            }
            m.invalidate_context_cache();
            out.count("fault.message.published_text_corrupted", 1);
        }
        // a pipeline that finished its first pass may go round again on the same Message
        if done[p].iter().all(|d| *d) && passes_left[p] > 0 && failed[p].is_none() {
            passes_left[p] -= 1;
            done[p] = [false; 4];
            out.count("probe.second_pass_over_the_same_message", 1);
        }
    }
    for tx in &cmd_tx {
        let _ = tx.send(None);
    }
    for h in handles {
        let _ = h.join();
    }
    if out.harness_error.is_some() {
        return;
    }
    let interleaved = {
        // did tasks of different pipelines actually alternate?
        let order: Vec<usize> = out.log.iter().filter_map(|l| l.split(" p").nth(1).and_then(|x| x.split(' ').next()).and_then(|x| x.parse().ok())).collect();
        order.windows(2).filter(|w| w[0] != w[1]).count() > n.saturating_sub(1)
    };
    if interleaved {
        out.count("fault.schedule.pipelines_interleaved_at_task_level", 1);
    }
    let mut texts = vec![];
    for (p, sc) in scs.iter().enumerate() {
        if Some(p) == poisoned {
            continue;
        }
        let mt = format!("MT{}", sc.mt);
        let m = msgs[p].lock().unwrap_or_else(|e| e.into_inner());
        if let Some((t, e)) = &failed[p] {
            if out.violation.is_none() {
                out.violation = Some(violation(format!("C15/O1 {mt} task error in {}", TASKS[*t]), format!("{} (pipeline {p}): {}", sc.rel, e.chars().take(700).collect::<String>())));
            }
            continue;
        }
        let mut d = m.data().clone();
        if in_place[p] {
            // present the in-place pipeline's data under the usual names
            let text = d.get("document").cloned().unwrap_or(Value::Null);
            if let Some(o) = d.as_object_mut() {
                o.insert("sample_mt".into(), text);
                o.insert("sample_json".into(), saved_generated[p].clone());
            }
        }
        let v = judge(sc, &d, out);
        texts.push(d.get("sample_mt").and_then(|v| v.as_str()).unwrap_or("").to_string());
        if out.violation.is_none() {
            if let Some(mut v) = v {
                v.detail = format!("(pipeline {p} of {n}, tasks interleaved) {}", v.detail);
                out.violation = Some(v);
            }
        }
    }
    out.content_digest = fnv_str(&texts.join("\u{1}"));
}


fn workflow(mt: &str) -> Result<Workflow, String> {
    let j = json!({
        "id": format!("swift_mt_{mt}_workflow"),
        "name": format!("SWIFT MT{mt} Processing Pipeline"),
        "priority": 0,
        "tasks": [
            {"id": "step_1_generate", "name": "Generate Sample JSON",
             "function": {"name": "generate_mt", "input": {"target": "sample_json"}}},
            {"id": "step_2_publish", "name": "Publish to MT Format",
             "function": {"name": "publish_mt", "input": {"source": "sample_json", "target": "sample_mt"}}},
            {"id": "step_3_validate", "name": "Validate MT Message",
             "function": {"name": "validate_mt", "input": {"source": "sample_mt", "target": "validation_result"}}},
            {"id": "step_4_parse", "name": "Parse MT Message",
             "function": {"name": "parse_mt", "input": {"source": "sample_mt", "target": "mt_json"}}}
        ]
    });
    Workflow::from_json(&j.to_string()).map_err(|e| format!("workflow: {e:?}"))
}

/// Probes over the published text / generated JSON: rare draws the property's
/// "why tests can't" names.
fn probes(out: &mut Outcome, generated: &Value, text: &str) {
    let mut b4_lines = 0u64;
    let mut cur_tag = String::new();
    let mut line_in_field = 0usize;
    for line in text.lines() {
        b4_lines += 1;
        let content = match line.strip_prefix(':').and_then(|rest| rest.find(':').map(|c| (rest, c))) {
            Some((rest, c)) => {
                cur_tag = rest[..c].to_string();
                line_in_field = 0;
                &rest[c + 1..]
            }
            None => {
                line_in_field += 1;
                line
            }
        };
        if content.chars().count() == 35 && !cur_tag.is_empty() && !line.starts_with('{') {
            out.count(&format!("probe.len35.{cur_tag}.line{line_in_field}"), 1);
        }
        let n = line.chars().count();
        if n == 35 {
            out.count("probe.line_exactly_35", 1);
        }
        if n == 34 {
            out.count("probe.line_exactly_34", 1);
        }
        if line.ends_with(' ') {
            out.count("probe.line_trailing_blank", 1);
        }
        if line.contains('\'') {
            out.count("probe.apostrophe_in_text", 1);
        }
    }
    let _ = b4_lines;
    fn walk(v: &Value, out: &mut Outcome) {
        match v {
            Value::Object(o) => {
                for (k, x) in o {
                    if k == "bic" && x.as_str().is_some_and(|s| s.len() == 11) {
                        out.count("probe.bic11_drawn", 1);
                    }
                    walk(x, out);
                }
            }
            Value::Array(a) => a.iter().for_each(|x| walk(x, out)),
            Value::String(t) => {
                for line in t.split('\n') {
                    if line.ends_with(' ') {
                        out.count("probe.drawn_string_line_ends_in_blank", 1);
                    }
                    if line.starts_with(' ') {
                        out.count("probe.drawn_string_line_starts_with_blank", 1);
                    }
                    if line.contains("  ") {
                        out.count("probe.drawn_string_double_blank", 1);
                    }
                    if line.ends_with('-') || line.starts_with('-') {
                        out.count("probe.drawn_string_line_edge_hyphen", 1);
                    }
                    if line.starts_with(':') {
                        out.count("probe.drawn_string_line_starts_with_colon", 1);
                    }
                }
            }
            Value::Number(n) => {
                if let Some(f) = n.as_f64() {
                    let s = format!("{f}");
                    if let Some(p) = s.find('.') {
                        if s.len() - p - 1 >= 3 {
                            out.count("probe.amount_3plus_decimals", 1);
                        }
                    }
                    if f >= 1e9 {
                        out.count("probe.amount_ge_1e9", 1);
                    }
                }
            }
            _ => {}
        }
    }
    walk(generated, out);
}

fn violation(class: String, detail: String) -> Violation {
    Violation { property: "C15".into(), class, detail }
}

fn run_plugin(sc: &scen::Scenario, out: &mut Outcome) {
    let mut fns: HashMap<String, Box<dyn AsyncFunctionHandler + Send + Sync>> = HashMap::new();
    for (n, h) in register_swift_mt_functions() {
        fns.insert(n.to_string(), h);
    }
    let wf = match workflow(&sc.mt) {
        Ok(w) => w,
        Err(e) => {
            out.harness_error = Some(e);
            return;
        }
    };
    let engine = dataflow_rs::Engine::new(vec![wf], Some(fns));
    let mut msg = Message::from_value(&sc.value);
    let res = match block_on(engine.process_message(&mut msg)) {
        Ok((r, polls)) => {
            out.count("exec.polls", polls as u64);
            r
        }
        Err(e) => {
            out.harness_error = Some(e);
            return;
        }
    };
    let d = msg.data().clone();
    // O1: the workflow completes
    let mt = format!("MT{}", sc.mt);
    if let Err(e) = res {
        out.violation = Some(violation(format!("C15/O1 {mt} engine error"), format!("{}: process_message returned {e:?}", sc.rel)));
        return;
    }
    if !msg.errors.is_empty() {
        let e = serde_json::to_string(&msg.errors[0]).unwrap_or_default();
        let task = msg.errors[0].task_id.clone().unwrap_or_default();
        out.violation = Some(violation(
            format!("C15/O1 {mt} task error in {task}"),
            format!("{}: {}", sc.rel, e.chars().take(900).collect::<String>()),
        ));
        return;
    }
    let v = judge(sc, &d, out);
    out.content_digest = fnv_str(d.get("sample_mt").and_then(|v| v.as_str()).unwrap_or(""));
    out.violation = v;
}

/// O1 (outputs present), O2 (no validation error), O3 (exact round trip) over a finished pipeline's data.
fn judge(sc: &scen::Scenario, d: &Value, out: &mut Outcome) -> Option<Violation> {
    let mt = format!("MT{}", sc.mt);
    let text = d.get("sample_mt").and_then(|v| v.as_str()).unwrap_or("").to_string();
    let gen_wrapped = d.get("sample_json").cloned().unwrap_or(Value::Null);
    let generated = gen_wrapped.get("json_data").cloned().unwrap_or(gen_wrapped);
    out.log.push(format!("generated {}", hex(fnv_str(&generated.to_string()))));
    out.log.push(format!("published {} bytes={}", hex(fnv_str(&text)), text.len()));
    probes(out, &generated, &text);
    for k in ["sample_json", "sample_mt", "validation_result", "mt_json"] {
        if d.get(k).is_none_or(|v| v.is_null()) {
            return Some(violation(format!("C15/O1 {mt} missing output {k}"), format!("{}: output `{k}` absent after the workflow", sc.rel)));
        }
    }
    // O2: network validation passes with no error
    let vr = &d["validation_result"];
    out.log.push(format!("validation valid={} errors={}", vr["valid"], vr["errors"].as_array().map(|a| a.len()).unwrap_or(0)));
    if vr["valid"] != json!(true) || vr["errors"].as_array().is_none_or(|a| !a.is_empty()) {
        let first = vr["errors"].get(0).and_then(|e| e.as_str()).unwrap_or("").to_string();
        let code = first.split(']').next().unwrap_or("").trim_start_matches('[').to_string();
        return Some(violation(
            format!("C15/O2 {mt} validation {}", if first.starts_with('[') { code } else { "parse error".into() }),
            format!("{}: valid={} errors={}", sc.rel, vr["valid"], short(&vr["errors"])),
        ));
    }
    // O3: exact round trip
    let parsed = &d["mt_json"];
    let mut df = vec![];
    json_diff(&generated, parsed, "", &mut df);
    out.log.push(format!("parsed {} diffs={}", hex(fnv_str(&parsed.to_string())), df.len()));
    if let Some(first) = df.first() {
        let p = first.split(':').next().unwrap_or("");
        return Some(violation(
            format!("C15/O3 {mt} round trip {}", path_shape(p)),
            format!("{}: {} difference(s); first: {}", sc.rel, df.len(), first),
        ));
    }
    None
}

fn run_sample_typed<T>(sc: &scen::Scenario, overlay: Option<&std::path::PathBuf>, api: u8, prior_reject: u8, out: &mut Outcome)
where
    T: SwiftMessageBody + serde::de::DeserializeOwned,
{
    let mt = format!("MT{}", sc.mt);
    let paths: Vec<std::path::PathBuf> = match overlay {
        Some(o) => {
            out.count("config.scenario_lookup_through_two_base_paths", 1);
            vec![o.clone(), scen::scenario_root()]
        }
        None => vec![scen::scenario_root()],
    };
    let generated = match api % 3 {
        1 => {
            out.count("config.sample_api.SampleGenerator_builder", 1);
            swift_mt_message::SampleGenerator::with_config(ScenarioConfig::with_paths(vec![])).with_paths(paths.clone()).generate::<T>(&mt, Some(&sc.name))
        }
        2 => {
            // the worker process executes one run at a time, so the process environment is the run's
            out.count("config.sample_api.generate_sample_with_env_paths", 1);
            let joined = paths.iter().map(|p| p.to_string_lossy().to_string()).collect::<Vec<_>>().join(":");
            unsafe { std::env::set_var("SWIFT_SCENARIO_PATH", &joined) };
            let r = swift_mt_message::generate_sample::<T>(&mt, Some(&sc.name));
            unsafe { std::env::remove_var("SWIFT_SCENARIO_PATH") };
            r
        }
        _ => swift_mt_message::generate_sample_with_config::<T>(&mt, Some(&sc.name), &ScenarioConfig::with_paths(paths.clone())),
    };
    let m = match generated {
        Ok(m) => m,
        Err(e) => {
            out.violation = Some(violation(format!("C15/O4 {mt} generate_sample failed"), format!("{}: {e}", sc.rel)));
            return;
        }
    };
    let text = m.to_mt_message();
    if prior_reject > 0 {
        // fault: this thread first sees a message that the auto-detecting parser rejects
        let garbled = if prior_reject == 1 { text.replacen(&format!("{{2:I{}", sc.mt), "{2:I300", 1) } else { text.replacen("{1:F01", "{1:Q9", 1) };
        if SwiftParser::parse_auto(&garbled).is_err() {
            out.count("fault.message.rejected_by_parse_auto_earlier_on_this_thread", 1);
        }
    }
    out.content_digest = fnv_str(&text);
    let generated = serde_json::to_value(&m).unwrap_or(Value::Null);
    out.log.push(format!("published {} bytes={}", hex(out.content_digest), text.len()));
    probes(out, &generated, &text);
    let p = match SwiftParser::parse::<T>(&text) {
        Ok(p) => p,
        Err(e) => {
            out.violation = Some(violation(format!("C15/O4 {mt} published text does not parse"), format!("{}: {e}", sc.rel)));
            return;
        }
    };
    let errs = p.fields.validate_network_rules(false);
    out.log.push(format!("validation errors={}", errs.len()));
    if let Some(e) = errs.first() {
        out.violation = Some(violation(format!("C15/O4 {mt} validation {}", e.error_code()), format!("{}: {} error(s); first: {e}", sc.rel, errs.len())));
        return;
    }
    let parsed = serde_json::to_value(&p).unwrap_or(Value::Null);
    let mut df = vec![];
    json_diff(&generated, &parsed, "", &mut df);
    out.log.push(format!("parsed {} diffs={}", hex(fnv_str(&parsed.to_string())), df.len()));
    if let Some(first) = df.first() {
        let pth = first.split(':').next().unwrap_or("");
        out.violation = Some(violation(
            format!("C15/O4 {mt} round trip {}", path_shape(pth)),
            format!("{}: {} difference(s); first: {}", sc.rel, df.len(), first),
        ));
    }
}

fn run_sample(sc: &scen::Scenario, overlay: Option<&std::path::PathBuf>, api: u8, prior_reject: u8, out: &mut Outcome) {
    with_type!(sc.mt.as_str(), T => run_sample_typed::<T>(sc, overlay, api, prior_reject, out), {
        out.harness_error = Some(format!("unknown message type {}", sc.mt));
    })
}

/// Month/day pairs named by date literals of a scenario file: strings of exactly four digits
/// `MMDD`, six digits `YYMMDD` or `YYYY-MM-DD` that denote a calendar day. A scenario that pairs
/// such a literal with a generated date (datafake's `date` is the wall clock) behaves differently
/// on exactly that day of the year.
fn literal_days(v: &Value, out: &mut Vec<(u32, u32)>) {
    match v {
        Value::String(s) => {
            let b = s.as_bytes();
            let num = |x: &[u8]| -> Option<u32> { if x.iter().all(|c| c.is_ascii_digit()) { std::str::from_utf8(x).ok()?.parse().ok() } else { None } };
            let md = match b.len() {
                4 => num(&b[0..2]).zip(num(&b[2..4])),
                6 => num(&b[0..2]).and(num(&b[2..4]).zip(num(&b[4..6]))),
                10 if b[4] == b'-' && b[7] == b'-' => num(&b[0..4]).and(num(&b[5..7]).zip(num(&b[8..10]))),
                _ => None,
            };
            if let Some((m, d)) = md {
                let len = match m { 1 | 3 | 5 | 7 | 8 | 10 | 12 => 31, 4 | 6 | 9 | 11 => 30, 2 => 29, _ => 0 };
                if d >= 1 && d <= len && !out.contains(&(m, d)) {
                    out.push((m, d));
                }
            }
        }
        Value::Array(a) => a.iter().for_each(|x| literal_days(x, out)),
        Value::Object(o) => o.values().for_each(|x| literal_days(x, out)),
        _ => {}
    }
}

/// Start class "literal-day": half of the runs of the `uniform` class start on a day of the year
/// that a date literal of the scenario file names (year and time of day drawn from a stream of
/// their own, so that no other choice of the run moves).
fn literal_day(mut c: ClockCfg, class: usize, run_seed: u64, scenario: &Value) -> ClockCfg {
    if class != 1 {
        return c;
    }
    let mut r = Sm(derive(run_seed, "clock-literal", 0));
    if !r.chance(1, 2) {
        return c;
    }
    let mut days = vec![];
    literal_days(scenario, &mut days);
    if days.is_empty() {
        return c;
    }
    let (m, d) = *r.pick(&days);
    let y = if (m, d) == (2, 29) { 2000 + 4 * r.range_i64(0, 12) } else { r.range_i64(2000, 2049) };
    c.class = "literal-day".into();
    c.start_ns = (seam::ns_of(y, m, d, 0, 0, 0, 0) + r.range_i64(0, seam::DAY_NS - 1)).clamp(c.lo_ns, c.hi_ns);
    c
}

impl Engine for C15 {
    type Spec = Spec;
    const ID: &'static str = "pipeline";
    const PROPERTY: &'static str = "C15";

    fn plan(env: &Env, base: u64, i: u64) -> Spec {
        let nf = env.scenarios.len() as u64;
        let sc = &env.scenarios[(i % nf) as usize];
        let rep = i / nf;
        let run_seed = derive(base, "pipeline/run", i);
        let mut clock_r = Sm(derive(run_seed, "clock", 0));
        // rep walks the 16 clock classes; the ladder index walks the 50 years
        // across files and repetitions so every year is visited even in `quick`
        let class = (rep % N_CLOCK_CLASSES as u64) as usize;
        let ladder = (i % nf) + rep / N_CLOCK_CLASSES as u64 * 7;
        let mut wl = Sm(derive(run_seed, "workload", 0));
        let mut sched = Sm(derive(run_seed, "sched", 0));
        let path = match wl.below(4) {
            0 => "sample",
            1 => "interleaved",
            _ => "plugin",
        };
        let (mut more_pipelines, mut callers, mut steps) = (vec![], 0, vec![]);
        let (mut poison, mut second_pass) = (None, vec![]);
        let mut in_place: Vec<usize> = vec![];
        if path == "interleaved" {
            let n = 2 + wl.below(2);
            for _ in 1..n {
                // same scenario (same text length, same generators) half of the time
                more_pipelines.push(if wl.chance(1, 2) { sc.rel.clone() } else { env.scenarios[wl.below(nf as usize)].rel.clone() });
            }
            callers = 1 + sched.below(3);
            for _ in 0..(10 * n) {
                steps.push((sched.below(n), sched.below(4), sched.below(callers)));
            }
            if wl.chance(1, 3) {
                poison = Some((1 + wl.below(n - 1), wl.below(4) as u8));
            }
            if wl.chance(1, 3) {
                second_pass.push(wl.below(n));
            }
            if wl.chance(1, 3) {
                in_place.push(wl.below(n));
            }
        }
        // the process's local time zone: mostly UTC, sometimes far west or far east of it
        let tz = match wl.below(8) {
            0 => Some("<-12>12".to_string()),
            1 => Some("<+14>-14".to_string()),
            2 => Some("EST5EDT".to_string()),
            _ => None,
        };
        Spec {
            run_seed,
            scenario: sc.rel.clone(),
            scenario_digest: hex(sc.digest),
            path: path.into(),
            entropy_seed: derive(run_seed, "entropy", 0),
            clock: literal_day(gen_clock(class, ladder, &mut clock_r), class, run_seed, &sc.value),
            more_pipelines,
            callers,
            steps,
            poison,
            second_pass,
            diag: wl.chance(1, 3),
            tz,
            in_place,
            pins: if path != "sample" && wl.chance(1, 3) {
                (0..1 + wl.below(2)).map(|_| (wl.below(1000), if wl.chance(1, 4) { 1_000_000 + wl.below(1000) } else { wl.below(1000) })).collect()
            } else {
                vec![]
            },
            overlay: wl.chance(1, 2),
            sample_api: wl.below(3) as u8,
            stale_targets: path == "interleaved" && wl.chance(1, 4),
            prior_reject: if path == "sample" && wl.chance(1, 3) { 1 + wl.below(2) as u8 } else { 0 },
        }
    }

    fn execute(env: &Env, spec: &Spec) -> (Outcome, Option<Spec>) {
        let mut out = Outcome::default();
        out.log.push(format!(
            "run_seed={} engine=pipeline path={} scenario={} entropy={} {} tz={} diag={} in_place={:?} pins={:?}",
            spec.run_seed, spec.path, spec.scenario, hex(spec.entropy_seed), spec.clock.describe(), spec.tz.as_deref().unwrap_or("UTC"), spec.diag, spec.in_place, spec.pins
        ));
        let Some(sc) = scen::find(&env.scenarios, &spec.scenario).cloned() else {
            out.harness_error = Some(format!("scenario {} not found", spec.scenario));
            return (out, None);
        };
        if hex(sc.digest) != spec.scenario_digest {
            out.log.push(format!("note: scenario digest differs from the recorded one ({} vs {})", hex(sc.digest), spec.scenario_digest));
        }
        let ctx = spec.clock.ctx(spec.entropy_seed);
        let ctx2 = ctx.clone();
        let path = spec.path.clone();
        let mut o2 = out.clone();
        let mut sc = sc;
        if !spec.pins.is_empty() && spec.path != "sample" {
            let (v, n) = apply_pins(&sc.value, &spec.pins);
            sc.value = v;
            out.count("config.adversarial_draw_pinned", n as u64);
        }
        let mut scs = vec![sc.clone()];
        for r in &spec.more_pipelines {
            match scen::find(&env.scenarios, r) {
                Some(x) => scs.push(x.clone()),
                None => {
                    out.harness_error = Some(format!("scenario {r} not found"));
                    return (out, None);
                }
            }
        }
        let spec_c = spec.clone();
        let diag = spec.diag;
        let overlay_dir = if spec.overlay && spec.path == "sample" { Some(ensure_overlay(&env.scenarios)) } else { None };
        let sample_api = spec.sample_api;
        let prior_reject = spec.prior_reject;
        // the worker process executes one run at a time, so the process environment is the run's
        match &spec.tz {
            Some(tz) => unsafe { std::env::set_var("TZ", tz) },
            None => unsafe { std::env::set_var("TZ", "UTC0") },
        }
        if spec.tz.is_some() {
            out.count("config.local_time_zone_not_utc", 1);
        }
        let mut o2 = { let mut o = o2; o.counters = out.counters.clone(); o.log = out.log.clone(); o };
        let res = on_fresh_thread(move || {
            let _a = seam::attach(&ctx2);
            let _ = std::collections::hash_map::RandomState::new();
            with_diag(diag, || {
                if path == "sample" {
                    run_sample(&sc, overlay_dir.as_ref(), sample_api, prior_reject, &mut o2)
                } else if path == "interleaved" {
                    run_interleaved(&scs, &spec_c, &ctx2, &mut o2)
                } else {
                    run_plugin(&sc, &mut o2)
                }
            });
            if diag {
                o2.count("config.diagnostics_subscriber_installed", 1);
            }
            o2
        });
        match res {
            Ok(o) => out = o,
            Err(p) => {
                // a panic anywhere in generate→publish→validate→parse is a failed pipeline
                let mt = spec.scenario.split('/').next().unwrap_or("").to_uppercase();
                let what = p.chars().take(300).collect::<String>();
                out.violation = Some(violation(format!("C15/O1 {mt} panic"), format!("{}: panicked: {what}", spec.scenario)));
            }
        }
        out.absorb_ctx(&ctx);
        let er = out.counters.get("seam.entropy_calls").copied().unwrap_or(0);
        let cr = out.counters.get("seam.clock_reads").copied().unwrap_or(0);
        out.nontrivial = er + cr > 0;
        out.shape_digest = fnv_str(&format!("{}|{}|{}|{:?}|{:?}|{:?}|{:?}", spec.path, spec.scenario, spec.clock.class, spec.more_pipelines, spec.steps, spec.poison, (&spec.second_pass, &spec.in_place, &spec.tz)));
        out.log.push(format!(
            "seam entropy_calls={er} clock_reads={cr} last_read={}",
            seam::fmt_ns(ctx.now())
        ));
        if cr > 0 {
            out.count(&format!("clockclass.{}", spec.clock.class), 1);
        }
        out.count(&format!("path.{}", spec.path), 1);
        if out.violation.is_none() && out.discard.is_none() {
            // per (scenario, tag) boundary-length lines: the tag is part of the key so that a rare
            // 35-character line in one particular field is kept even where such lines are common elsewhere
            if spec.path != "interleaved" {
                for k in out.counters.keys().filter(|k| k.starts_with("probe.len35.")).cloned().collect::<Vec<_>>() {
                    out.harvest.push(format!("{k}|{}", spec.scenario));
                }
            }
            for k in ["probe.drawn_string_line_ends_in_blank", "probe.drawn_string_line_starts_with_blank", "probe.drawn_string_double_blank", "probe.drawn_string_line_edge_hyphen", "probe.drawn_string_line_starts_with_colon", "probe.line_trailing_blank", "probe.amount_3plus_decimals"] {
                if out.counters.contains_key(k) {
                    out.harvest.push(format!("{k}|{}", spec.scenario));
                }
            }
        }
        (out, None)
    }

    fn shrink_candidates(spec: &Spec) -> Vec<Spec> {
        let mut v = vec![];
        let plain = ClockCfg::plain();
        if spec.clock != plain {
            // simplest first: fixed start, 1 ms tick, no jumps
            let mut s = spec.clone();
            s.clock = plain.clone();
            v.push(s);
            // keep the start instant, drop the rest
            let mut s = spec.clone();
            s.clock = ClockCfg { class: "shrunk".into(), start_ns: spec.clock.start_ns, tick_ns: 1_000_000, jumps: vec![], ..plain.clone() };
            if s.clock != spec.clock {
                v.push(s);
            }
            for k in 0..spec.clock.jumps.len() {
                let mut s = spec.clone();
                s.clock.jumps.remove(k);
                v.push(s);
            }
        }
        if spec.diag {
            let mut s = spec.clone();
            s.diag = false;
            v.push(s);
        }
        if spec.tz.is_some() {
            let mut s = spec.clone();
            s.tz = None;
            v.push(s);
        }
        for k in 0..spec.pins.len() {
            let mut s = spec.clone();
            s.pins.remove(k);
            v.push(s);
        }
        if spec.overlay {
            let mut s = spec.clone();
            s.overlay = false;
            v.push(s);
        }
        if spec.stale_targets {
            let mut s = spec.clone();
            s.stale_targets = false;
            v.push(s);
        }
        if spec.prior_reject > 0 {
            let mut s = spec.clone();
            s.prior_reject = 0;
            v.push(s);
        }
        if !spec.in_place.is_empty() {
            let mut s = spec.clone();
            s.in_place.clear();
            v.push(s);
        }
        if spec.path == "sample" {
            let mut s = spec.clone();
            s.path = "plugin".into();
            v.push(s);
        }
        if spec.path == "interleaved" {
            let mut s = spec.clone();
            s.path = "plugin".into();
            s.more_pipelines.clear();
            s.steps.clear();
            s.callers = 0;
            s.poison = None;
            s.second_pass.clear();
            s.in_place.clear();
            v.push(s);
            if spec.callers > 1 {
                let mut s = spec.clone();
                s.callers = 1;
                v.push(s);
            }
            if spec.poison.is_some() {
                let mut s = spec.clone();
                s.poison = None;
                v.push(s);
            }
            if !spec.second_pass.is_empty() {
                let mut s = spec.clone();
                s.second_pass.clear();
                v.push(s);
            }
            if spec.more_pipelines.len() > 1 {
                for k in 0..spec.more_pipelines.len() {
                    let mut s = spec.clone();
                    s.more_pipelines.remove(k);
                    s.steps.retain(|st| st.0 % (spec.more_pipelines.len() + 1) != k + 1);
                    s.steps.iter_mut().for_each(|st| {
                        let p = st.0 % (spec.more_pipelines.len() + 1);
                        st.0 = if p > k + 1 { p - 1 } else { p };
                    });
                    v.push(s);
                }
            }
            let n = spec.steps.len();
            if n > 1 {
                let mut s = spec.clone();
                s.steps.truncate(n / 2);
                v.push(s);
                let mut s = spec.clone();
                s.steps.drain(..n / 2);
                v.push(s);
            }
            for k in (0..n).rev() {
                let mut s = spec.clone();
                s.steps.remove(k);
                v.push(s);
            }
        }
        v
    }

    fn describe(spec: &Spec) -> Value {
        json!({"scenario": spec.scenario, "path": spec.path, "entropy_seed": hex(spec.entropy_seed),
               "clock": spec.clock.describe(), "more_pipelines": spec.more_pipelines, "callers": spec.callers, "steps": spec.steps.len()})
    }
}
