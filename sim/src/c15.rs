//! `pipeline` engine — property C15.
//!
//! System: the real dataflow `Engine` with the four real plugin handlers
//! (generate_mt → publish_mt → validate_mt → parse_mt), or the library's
//! `generate_sample_with_config` path, run under a simulated entropy source
//! (every random draw, uuid, hash key) and a simulated wall clock (the `date`
//! generator *is* `Utc::now()`), with clock faults.

use crate::scen;
use crate::seam;
use crate::sim::*;
use crate::util::*;
use crate::with_type;
use dataflow_rs::engine::{AsyncFunctionHandler, Message, Workflow};
use serde::{Deserialize, Serialize};
use serde_json::{json, Value};
use std::collections::HashMap;
use swift_mt_message::messages::*;
use swift_mt_message::plugin::register_swift_mt_functions;
use swift_mt_message::{ScenarioConfig, SwiftMessageBody, SwiftParser};

#[derive(Serialize, Deserialize, Clone, Debug)]
pub struct Spec {
    pub run_seed: u64,
    pub scenario: String,
    pub scenario_digest: String,
    /// "plugin" (dataflow workflow) or "sample" (generate_sample_with_config)
    pub path: String,
    pub entropy_seed: u64,
    pub clock: ClockCfg,
}

pub struct C15;

fn workflow(mt: &str) -> Result<Workflow, String> {
    let j = json!({
        "id": format!("swift_mt_{mt}_workflow"),
        "name": format!("SWIFT MT{mt} Processing Pipeline"),
        "priority": 0,
        "tasks": [
            {"id": "step_1_generate", "name": "Generate Sample JSON",
             "function": {"name": "generate_mt", "input": {"target": "sample_json"}}},
            {"id": "step_2_publish", "name": "Publish to MT Format",
             "function": {"name": "publish_mt", "input": {"source": "sample_json", "target": "sample_mt"}}},
            {"id": "step_3_validate", "name": "Validate MT Message",
             "function": {"name": "validate_mt", "input": {"source": "sample_mt", "target": "validation_result"}}},
            {"id": "step_4_parse", "name": "Parse MT Message",
             "function": {"name": "parse_mt", "input": {"source": "sample_mt", "target": "mt_json"}}}
        ]
    });
    Workflow::from_json(&j.to_string()).map_err(|e| format!("workflow: {e:?}"))
}

/// Probes over the published text / generated JSON: rare draws the property's
/// "why tests can't" names.
fn probes(out: &mut Outcome, generated: &Value, text: &str) {
    let mut b4_lines = 0u64;
    for line in text.lines() {
        b4_lines += 1;
        let n = line.chars().count();
        if n == 35 {
            out.count("probe.line_exactly_35", 1);
        }
        if line.ends_with(' ') {
            out.count("probe.line_trailing_blank", 1);
        }
        if line.contains('\'') {
            out.count("probe.apostrophe_in_text", 1);
        }
    }
    let _ = b4_lines;
    fn walk(v: &Value, out: &mut Outcome) {
        match v {
            Value::Object(o) => {
                for (k, x) in o {
                    if k == "bic" && x.as_str().is_some_and(|s| s.len() == 11) {
                        out.count("probe.bic11_drawn", 1);
                    }
                    walk(x, out);
                }
            }
            Value::Array(a) => a.iter().for_each(|x| walk(x, out)),
            Value::Number(n) => {
                if let Some(f) = n.as_f64() {
                    let s = format!("{f}");
                    if let Some(p) = s.find('.') {
                        if s.len() - p - 1 >= 3 {
                            out.count("probe.amount_3plus_decimals", 1);
                        }
                    }
                    if f >= 1e9 {
                        out.count("probe.amount_ge_1e9", 1);
                    }
                }
            }
            _ => {}
        }
    }
    walk(generated, out);
}

fn violation(class: String, detail: String) -> Violation {
    Violation { property: "C15".into(), class, detail }
}

fn run_plugin(sc: &scen::Scenario, out: &mut Outcome) {
    let mut fns: HashMap<String, Box<dyn AsyncFunctionHandler + Send + Sync>> = HashMap::new();
    for (n, h) in register_swift_mt_functions() {
        fns.insert(n.to_string(), h);
    }
    let wf = match workflow(&sc.mt) {
        Ok(w) => w,
        Err(e) => {
            out.harness_error = Some(e);
            return;
        }
    };
    let engine = dataflow_rs::Engine::new(vec![wf], Some(fns));
    let mut msg = Message::from_value(&sc.value);
    let res = match block_on(engine.process_message(&mut msg)) {
        Ok((r, polls)) => {
            out.count("exec.polls", polls as u64);
            r
        }
        Err(e) => {
            out.harness_error = Some(e);
            return;
        }
    };
    let mt = format!("MT{}", sc.mt);
    let d = msg.data().clone();
    let text = d.get("sample_mt").and_then(|v| v.as_str()).unwrap_or("").to_string();
    let gen_wrapped = d.get("sample_json").cloned().unwrap_or(Value::Null);
    let generated = gen_wrapped.get("json_data").cloned().unwrap_or(gen_wrapped);
    out.content_digest = fnv_str(&text);
    out.log.push(format!("generated {}", hex(fnv_str(&generated.to_string()))));
    out.log.push(format!("published {} bytes={}", hex(out.content_digest), text.len()));
    probes(out, &generated, &text);

    // O1: the workflow completes
    if let Err(e) = res {
        out.violation = Some(violation(format!("C15/O1 {mt} engine error"), format!("{}: process_message returned {e:?}", sc.rel)));
        return;
    }
    if !msg.errors.is_empty() {
        let e = serde_json::to_string(&msg.errors[0]).unwrap_or_default();
        let task = msg.errors[0].task_id.clone().unwrap_or_default();
        out.violation = Some(violation(
            format!("C15/O1 {mt} task error in {task}"),
            format!("{}: {}", sc.rel, e.chars().take(900).collect::<String>()),
        ));
        return;
    }
    for k in ["sample_json", "sample_mt", "validation_result", "mt_json"] {
        if d.get(k).is_none_or(|v| v.is_null()) {
            out.violation = Some(violation(format!("C15/O1 {mt} missing output {k}"), format!("{}: output `{k}` absent after the workflow", sc.rel)));
            return;
        }
    }
    // O2: network validation passes with no error
    let vr = &d["validation_result"];
    out.log.push(format!("validation valid={} errors={}", vr["valid"], vr["errors"].as_array().map(|a| a.len()).unwrap_or(0)));
    if vr["valid"] != json!(true) || vr["errors"].as_array().is_none_or(|a| !a.is_empty()) {
        let first = vr["errors"].get(0).and_then(|e| e.as_str()).unwrap_or("").to_string();
        let code = first.split(']').next().unwrap_or("").trim_start_matches('[').to_string();
        out.violation = Some(violation(
            format!("C15/O2 {mt} validation {}", if first.starts_with('[') { code } else { "parse error".into() }),
            format!("{}: valid={} errors={}", sc.rel, vr["valid"], short(&vr["errors"])),
        ));
        return;
    }
    // O3: exact round trip
    let parsed = &d["mt_json"];
    let mut df = vec![];
    json_diff(&generated, parsed, "", &mut df);
    out.log.push(format!("parsed {} diffs={}", hex(fnv_str(&parsed.to_string())), df.len()));
    if let Some(first) = df.first() {
        let p = first.split(':').next().unwrap_or("");
        out.violation = Some(violation(
            format!("C15/O3 {mt} round trip {}", path_shape(p)),
            format!("{}: {} difference(s); first: {}", sc.rel, df.len(), first),
        ));
    }
}

fn run_sample_typed<T>(sc: &scen::Scenario, out: &mut Outcome)
where
    T: SwiftMessageBody + serde::de::DeserializeOwned,
{
    let mt = format!("MT{}", sc.mt);
    let cfg = ScenarioConfig::with_paths(vec![scen::scenario_root()]);
    let m = match swift_mt_message::generate_sample_with_config::<T>(&mt, Some(&sc.name), &cfg) {
        Ok(m) => m,
        Err(e) => {
            out.violation = Some(violation(format!("C15/O4 {mt} generate_sample failed"), format!("{}: {e}", sc.rel)));
            return;
        }
    };
    let text = m.to_mt_message();
    out.content_digest = fnv_str(&text);
    let generated = serde_json::to_value(&m).unwrap_or(Value::Null);
    out.log.push(format!("published {} bytes={}", hex(out.content_digest), text.len()));
    probes(out, &generated, &text);
    let p = match SwiftParser::parse::<T>(&text) {
        Ok(p) => p,
        Err(e) => {
            out.violation = Some(violation(format!("C15/O4 {mt} published text does not parse"), format!("{}: {e}", sc.rel)));
            return;
        }
    };
    let errs = p.fields.validate_network_rules(false);
    out.log.push(format!("validation errors={}", errs.len()));
    if let Some(e) = errs.first() {
        out.violation = Some(violation(format!("C15/O4 {mt} validation {}", e.error_code()), format!("{}: {} error(s); first: {e}", sc.rel, errs.len())));
        return;
    }
    let parsed = serde_json::to_value(&p).unwrap_or(Value::Null);
    let mut df = vec![];
    json_diff(&generated, &parsed, "", &mut df);
    out.log.push(format!("parsed {} diffs={}", hex(fnv_str(&parsed.to_string())), df.len()));
    if let Some(first) = df.first() {
        let pth = first.split(':').next().unwrap_or("");
        out.violation = Some(violation(
            format!("C15/O4 {mt} round trip {}", path_shape(pth)),
            format!("{}: {} difference(s); first: {}", sc.rel, df.len(), first),
        ));
    }
}

fn run_sample(sc: &scen::Scenario, out: &mut Outcome) {
    with_type!(sc.mt.as_str(), T => run_sample_typed::<T>(sc, out), {
        out.harness_error = Some(format!("unknown message type {}", sc.mt));
    })
}

impl Engine for C15 {
    type Spec = Spec;
    const ID: &'static str = "pipeline";
    const PROPERTY: &'static str = "C15";

    fn plan(env: &Env, base: u64, i: u64) -> Spec {
        let nf = env.scenarios.len() as u64;
        let sc = &env.scenarios[(i % nf) as usize];
        let rep = i / nf;
        let run_seed = derive(base, "pipeline/run", i);
        let mut clock_r = Sm(derive(run_seed, "clock", 0));
        // rep walks the 16 clock classes; the ladder index walks the 50 years
        // across files and repetitions so every year is visited even in `quick`
        let class = (rep % N_CLOCK_CLASSES as u64) as usize;
        let ladder = (i % nf) + rep / N_CLOCK_CLASSES as u64 * 7;
        let mut wl = Sm(derive(run_seed, "workload", 0));
        Spec {
            run_seed,
            scenario: sc.rel.clone(),
            scenario_digest: hex(sc.digest),
            path: if wl.chance(1, 4) { "sample".into() } else { "plugin".into() },
            entropy_seed: derive(run_seed, "entropy", 0),
            clock: gen_clock(class, ladder, &mut clock_r),
        }
    }

    fn execute(env: &Env, spec: &Spec) -> (Outcome, Option<Spec>) {
        let mut out = Outcome::default();
        out.log.push(format!(
            "run_seed={} engine=pipeline path={} scenario={} entropy={} {}",
            spec.run_seed, spec.path, spec.scenario, hex(spec.entropy_seed), spec.clock.describe()
        ));
        let Some(sc) = scen::find(&env.scenarios, &spec.scenario).cloned() else {
            out.harness_error = Some(format!("scenario {} not found", spec.scenario));
            return (out, None);
        };
        if hex(sc.digest) != spec.scenario_digest {
            out.log.push(format!("note: scenario digest differs from the recorded one ({} vs {})", hex(sc.digest), spec.scenario_digest));
        }
        let ctx = spec.clock.ctx(spec.entropy_seed);
        let ctx2 = ctx.clone();
        let path = spec.path.clone();
        let mut o2 = out.clone();
        let res = on_fresh_thread(move || {
            let _a = seam::attach(&ctx2);
            if path == "sample" {
                run_sample(&sc, &mut o2)
            } else {
                run_plugin(&sc, &mut o2)
            }
            o2
        });
        match res {
            Ok(o) => out = o,
            Err(p) => {
                // a panic anywhere in generate→publish→validate→parse is a failed pipeline
                let mt = spec.scenario.split('/').next().unwrap_or("").to_uppercase();
                let what = p.chars().take(300).collect::<String>();
                out.violation = Some(violation(format!("C15/O1 {mt} panic"), format!("{}: panicked: {what}", spec.scenario)));
            }
        }
        out.absorb_ctx(&ctx);
        let er = out.counters.get("seam.entropy_calls").copied().unwrap_or(0);
        let cr = out.counters.get("seam.clock_reads").copied().unwrap_or(0);
        out.nontrivial = er + cr > 0;
        out.shape_digest = fnv_str(&format!("{}|{}|{}", spec.path, spec.scenario, spec.clock.class));
        out.log.push(format!(
            "seam entropy_calls={er} clock_reads={cr} last_read={}",
            seam::fmt_ns(ctx.now())
        ));
        if cr > 0 {
            out.count(&format!("clockclass.{}", spec.clock.class), 1);
        }
        out.count(&format!("path.{}", spec.path), 1);
        (out, None)
    }

    fn shrink_candidates(spec: &Spec) -> Vec<Spec> {
        let mut v = vec![];
        let plain = ClockCfg::plain();
        if spec.clock != plain {
            // simplest first: fixed start, 1 ms tick, no jumps
            let mut s = spec.clone();
            s.clock = plain.clone();
            v.push(s);
            // keep the start instant, drop the rest
            let mut s = spec.clone();
            s.clock = ClockCfg { class: "shrunk".into(), start_ns: spec.clock.start_ns, tick_ns: 1_000_000, jumps: vec![], ..plain.clone() };
            if s.clock != spec.clock {
                v.push(s);
            }
            for k in 0..spec.clock.jumps.len() {
                let mut s = spec.clone();
                s.clock.jumps.remove(k);
                v.push(s);
            }
        }
        if spec.path == "sample" {
            let mut s = spec.clone();
            s.path = "plugin".into();
            v.push(s);
        }
        v
    }

    fn describe(spec: &Spec) -> Value {
        json!({"scenario": spec.scenario, "path": spec.path, "entropy_seed": hex(spec.entropy_seed),
               "clock": spec.clock.describe()})
    }
}
