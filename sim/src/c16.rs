//! `consume-history` engine — property C16.
//!
//! System: `parse_block4_fields`, `FieldConsumptionTracker`, the sequential
//! finders, `split_into_sequences`, `parse_repetitive_sequence`.
//! 1–4 consumer threads (released one at a time by the scheduler) share one
//! tracker; each tokenises the text into its own map instance, so every map
//! involved has its own simulated hash keys. Reference model: the ordered log
//! of occurrences produced by an independent line tokeniser, with a consumed
//! flag per occurrence.

use crate::mt;
use crate::scen;
use crate::seam;
use crate::sim::*;
use crate::util::*;
use serde::{Deserialize, Serialize};
use serde_json::{json, Value};
use std::collections::{BTreeMap, BTreeSet, HashMap};
use std::sync::{mpsc, Arc, Mutex};
use swift_mt_message::parser::{
    find_field_with_variant_sequential_constrained, find_field_with_variant_sequential_numbered,
    get_sequence_config, parse_block4_fields, parse_repetitive_sequence, split_into_sequences,
    FieldConsumptionTracker, SequenceConfig,
};
use swift_mt_message::SwiftParser;

type FieldMap = HashMap<String, Vec<(String, usize)>>;

#[derive(Serialize, Deserialize, Clone, Debug, PartialEq)]
pub struct Occ {
    pub tag: String,
    pub content: String,
    #[serde(default)]
    pub blank_after: bool,
    #[serde(default)]
    pub pad: bool,
    /// this occurrence's line(s) end in CRLF instead of LF (mixed separators)
    #[serde(default)]
    pub crlf: bool,
}

#[derive(Serialize, Deserialize, Clone, Debug, PartialEq)]
pub enum TextMut {
    Dup { i: usize, j: usize },
    Swap { i: usize, j: usize },
    /// replace the option letter of occurrence i ("" removes it)
    Letter { i: usize, letter: String },
    Insert { j: usize, tag: String, content: String },
    Delete { i: usize },
    BlankAfter { i: usize },
    Pad { i: usize },
    Crlf,
    /// CRLF line ending for occurrence i only (mixed separators)
    CrlfAt { i: usize },
    /// append legal characters to the content of occurrence i (mod n); `last` targets the last field
    Append { i: usize, last: bool, suffix: String },
    /// make the content of occurrence i empty (`:23E:` directly followed by the next field)
    Empty { i: usize },
    /// repeat the whole field list `times` times (long texts: 64 … several hundred fields)
    Repeat { times: usize },
    /// append `n` two-byte characters to the content of occurrence i (byte offsets ≠ character offsets)
    NonAscii { i: usize, n: usize },
    /// give occurrence i a content of `n` short lines (texts with tens of thousands of LINES but few fields)
    ManyLines { i: usize, n: usize },
    /// the text starts directly at the first field marker (no line break in front of it)
    NoLeadingNewline,
}

#[derive(Serialize, Deserialize, Clone, Debug, PartialEq)]
pub enum TagRef {
    /// map key of occurrence i (mod n)
    KeyOf(usize),
    /// digits prefix of the key of occurrence i (mod n)
    BaseOf(usize),
    Literal(String),
}

#[derive(Serialize, Deserialize, Clone, Debug, PartialEq)]
pub enum Req {
    Find { tag: TagRef, constraint: Option<Vec<String>> },
    FindNumbered { tag: TagRef, constraint: Option<Vec<String>>, numbered: String },
    Peek { tag: TagRef },
    Take { tag: TagRef },
    /// mark the nth already consumed occurrence (mod count) consumed again
    Remark { nth: usize },
    /// mark a position consumed under a tag that is not in the map
    MarkForeign { nth: usize },
    CloneTracker,
    /// clone the shared tracker and keep the clone alive (never used again) while consumption continues on the original
    CloneHold,
    Retokenise,
    Split { cfg: usize },
    Repetitive { marker: TagRef },
    /// claim the nth still unconsumed occurrence of a key directly (out-of-order mark_consumed)
    MarkAhead { tag: TagRef, nth: usize },
    /// finder with a constraint made of option letters present in the text for that base (chosen by `mask`)
    FindPresent { tag: TagRef, mask: u32, numbered: bool },
    /// split with config `cfg`, then run the finder on sequence `seq` (0=A,1=B,2=C) with the shared tracker
    FindInSeq { cfg: usize, seq: usize, tag: TagRef, constraint: Option<Vec<String>> },
}

#[derive(Serialize, Deserialize, Clone, Debug, PartialEq)]
pub struct Step {
    pub consumer: usize,
    pub req: Req,
}

#[derive(Serialize, Deserialize, Clone, Debug)]
pub struct Spec {
    pub run_seed: u64,
    pub scenario: String,
    pub scenario_digest: String,
    pub e_w: u64,
    pub e_h: u64,
    pub paired_e_h: u64,
    pub text_muts: Vec<TextMut>,
    /// explicit occurrences (set by the shrinker / resolved spec); when present
    /// the scenario draw and `text_muts` are not used
    pub text: Option<Vec<Occ>>,
    #[serde(default)]
    pub crlf: bool,
    #[serde(default)]
    pub no_leading_newline: bool,
    pub consumers: usize,
    pub script: Vec<Step>,
    pub drain: bool,
    /// tick of the simulated monotonic clock per read (slow or stalled node); 0 = 1 µs
    #[serde(default)]
    pub mono_tick_ns: i64,
    /// configuration fault: (environment variable named in the library's source, value) set during the run
    #[serde(default)]
    pub env_fault: Option<(usize, usize)>,
}

pub struct C16;

const LETTERS: &[&str] = &["A", "B", "C", "D", "F", "G", "H", "K", "L", "M", "R", "S"];

pub fn split_configs() -> Vec<(String, SequenceConfig)> {
    let mut v: Vec<(String, SequenceConfig)> = ["MT101", "MT104", "MT107", "MT110", "MT204", "default"]
        .iter()
        .map(|n| (n.to_string(), get_sequence_config(n)))
        .collect();
    v.push((
        "marker61+C".into(),
        SequenceConfig {
            sequence_b_marker: "61".into(),
            sequence_c_fields: vec!["62".into(), "64".into(), "65".into(), "86".into()],
            has_sequence_c: true,
        },
    ));
    v.push(("marker23".into(), SequenceConfig { sequence_b_marker: "23".into(), sequence_c_fields: vec![], has_sequence_c: false }));
    v.push((
        "marker32B+C".into(),
        SequenceConfig { sequence_b_marker: "32B".into(), sequence_c_fields: vec!["71A".into(), "72".into()], has_sequence_c: true },
    ));
    v
}

/// Independent line tokeniser (the reference for T1). `None` = the text cannot
/// be segmented unambiguously by the stated format (discarded, counted).
pub fn ref_tokenise(b4: &str) -> Option<Vec<(String, String)>> {
    let mut out: Vec<(String, String)> = vec![];
    for line in b4.trim().split('\n') {
        if let Some(rest) = line.strip_prefix(':') {
            let c = rest.find(':')?;
            out.push((rest[..c].to_string(), rest[c + 1..].to_string()));
            continue;
        }
        match out.last_mut() {
            Some(o) => {
                o.1.push('\n');
                o.1.push_str(line);
            }
            None => {
                if !line.trim().is_empty() {
                    return None;
                }
            }
        }
    }
    for o in &mut out {
        o.1 = o.1.trim().to_string();
    }
    Some(out)
}

fn render(occs: &[Occ], crlf: bool) -> String {
    let mut s = String::from("\n");
    for o in occs {
        let mut f = format!(":{}:{}", o.tag, o.content);
        if o.pad {
            f.push_str("  ");
        }
        f.push('\n');
        if o.blank_after {
            f.push('\n');
        }
        if o.crlf && !crlf {
            f = f.replace('\n', "\r\n");
        }
        s.push_str(&f);
    }
    if crlf { s.replace('\n', "\r\n") } else { s }
}

fn digits_prefix(t: &str) -> &str {
    let n = t.find(|c: char| !c.is_ascii_digit()).unwrap_or(t.len());
    &t[..n]
}

fn apply_text_muts(occs: &mut Vec<Occ>, muts: &[TextMut], crlf: &mut bool, no_lead: &mut bool) {
    for m in muts {
        let n = occs.len();
        match m {
            TextMut::Crlf => *crlf = true,
            TextMut::NoLeadingNewline => *no_lead = true,
            _ if n == 0 => {}
            TextMut::Dup { i, j } => {
                let o = occs[i % n].clone();
                occs.insert(j % (n + 1), o);
            }
            TextMut::Swap { i, j } => occs.swap(i % n, j % n),
            TextMut::Letter { i, letter } => {
                let t = occs[i % n].tag.clone();
                if !t.contains('#') {
                    occs[i % n].tag = format!("{}{}", digits_prefix(&t), letter);
                }
            }
            TextMut::Insert { j, tag, content } => {
                occs.insert(j % (n + 1), Occ { tag: tag.clone(), content: content.clone(), blank_after: false, pad: false, crlf: false })
            }
            TextMut::Delete { i } => {
                occs.remove(i % n);
            }
            TextMut::BlankAfter { i } => occs[i % n].blank_after = true,
            TextMut::Pad { i } => occs[i % n].pad = true,
            TextMut::CrlfAt { i } => occs[i % n].crlf = true,
            TextMut::Empty { i } => occs[i % n].content.clear(),
            TextMut::NonAscii { i, n } => {
                let k = i % occs.len();
                occs[k].content.push_str(&"é".repeat((*n).min(64)));
            }
            TextMut::ManyLines { i, n } => {
                let k = i % occs.len();
                let mut c = String::with_capacity(n * 2 + 8);
                c.push_str("L0");
                for _ in 0..(*n).min(80_000) {
                    c.push_str("\nX");
                }
                occs[k].content = c;
            }
            TextMut::Repeat { times } => {
                let base = occs.clone();
                for _ in 1..(*times).clamp(1, 64) {
                    if occs.len() + base.len() > 1400 {
                        break;
                    }
                    occs.extend(base.iter().cloned());
                }
            }
            TextMut::Append { i, last, suffix } => {
                let k = if *last { n - 1 } else { i % n };
                occs[k].content.push_str(suffix);
            }
        }
    }
}

/// What a consumer thread sends back.
#[derive(Clone, Debug, PartialEq)]
enum Resp {
    Found(Option<(String, Option<String>, usize)>),
    Peeked(Option<(String, usize)>),
    Done,
    Tokenised(Result<Vec<(String, String, usize)>, String>, bool),
    Split(Result<[Vec<(String, String, usize)>; 3], String>, bool),
    Items(Result<Vec<Vec<(String, String, usize)>>, String>, bool),
    FoundIn(Result<([Vec<(String, String, usize)>; 3], bool, Option<(String, Option<String>, usize)>), String>),
    Panicked(String),
}

enum Cmd {
    Find(String, Option<Vec<String>>, Option<String>),
    Peek(String),
    Take(String),
    Mark(String, usize),
    CloneTracker,
    CloneHold,
    Retokenise,
    Split(SequenceConfig),
    Repetitive(String),
    FindIn(SequenceConfig, usize, String, Option<Vec<String>>),
    Quit,
}

fn flatten(m: &FieldMap) -> (Vec<(String, String, usize)>, bool) {
    let mut per_tag_ordered = true;
    let mut v: Vec<(String, String, usize)> = vec![];
    // deterministic: collect then sort by (stamp, key, content)
    for (k, vals) in m {
        for w in vals.windows(2) {
            if w[0].1 >= w[1].1 {
                per_tag_ordered = false;
            }
        }
        for (c, p) in vals {
            v.push((k.clone(), c.clone(), *p));
        }
    }
    v.sort_by(|a, b| a.2.cmp(&b.2).then(a.0.cmp(&b.0)).then(a.1.cmp(&b.1)));
    (v, per_tag_ordered)
}

fn consumer_loop(text: String, tracker: Arc<Mutex<FieldConsumptionTracker>>, rx: mpsc::Receiver<Cmd>, tx: mpsc::Sender<Resp>) {
    // no entropy may be drawn before the scheduler hands this thread its first
    // command (a `HashMap::new()` here would key the map at thread start-up, in
    // an order the scheduler does not decide)
    let mut map_slot: Option<FieldMap> = None;
    let mut held: Vec<FieldConsumptionTracker> = vec![];
    while let Ok(cmd) = rx.recv() {
        if matches!(cmd, Cmd::Quit) {
            break;
        }
        let r = std::panic::catch_unwind(std::panic::AssertUnwindSafe(|| {
            if map_slot.is_none() && !matches!(cmd, Cmd::Retokenise) {
                map_slot = parse_block4_fields(&text).ok();
            }
            if let Cmd::Retokenise = cmd {
                return match parse_block4_fields(&text) {
                    Ok(m) => {
                        let (f, ord) = flatten(&m);
                        map_slot = Some(m);
                        Resp::Tokenised(Ok(f), ord)
                    }
                    Err(e) => Resp::Tokenised(Err(format!("{e}")), true),
                };
            }
            let Some(map) = map_slot.as_ref() else {
                return Resp::Tokenised(Err("tokeniser rejected the text".into()), true);
            };
            match cmd {
                Cmd::Find(base, cons, numbered) => {
                    let mut t = tracker.lock().unwrap();
                    let cons_refs: Option<Vec<&str>> = cons.as_ref().map(|c| c.iter().map(|s| s.as_str()).collect());
                    let r = match numbered {
                        Some(nt) => find_field_with_variant_sequential_numbered(map, &base, &mut t, cons_refs, &nt),
                        None => find_field_with_variant_sequential_constrained(map, &base, &mut t, cons_refs.as_deref()),
                    };
                    Resp::Found(r)
                }
                Cmd::Peek(key) => {
                    let t = tracker.lock().unwrap();
                    let empty = vec![];
                    let vals = map.get(&key).unwrap_or(&empty);
                    Resp::Peeked(t.get_next_available(&key, vals).map(|(v, p)| (v.to_string(), p)))
                }
                Cmd::Take(key) => {
                    let mut t = tracker.lock().unwrap();
                    let empty = vec![];
                    let vals = map.get(&key).unwrap_or(&empty);
                    let r = t.get_next_available(&key, vals).map(|(v, p)| (v.to_string(), p));
                    if let Some((_, p)) = &r {
                        t.mark_consumed(&key, *p);
                    }
                    Resp::Peeked(r)
                }
                Cmd::Mark(tag, pos) => {
                    tracker.lock().unwrap().mark_consumed(&tag, pos);
                    Resp::Done
                }
                Cmd::CloneTracker => {
                    let mut t = tracker.lock().unwrap();
                    let c = t.clone();
                    *t = c;
                    Resp::Done
                }
                Cmd::CloneHold => {
                    let t = tracker.lock().unwrap();
                    held.push(t.clone());
                    Resp::Done
                }
                Cmd::Retokenise => Resp::Done,
                Cmd::Split(cfg) => match split_into_sequences(map, &cfg) {
                    Ok(ps) => {
                        let (a, oa) = flatten(&ps.sequence_a);
                        let (b, ob) = flatten(&ps.sequence_b);
                        let (c, oc) = flatten(&ps.sequence_c);
                        Resp::Split(Ok([a, b, c]), oa && ob && oc)
                    }
                    Err(e) => Resp::Split(Err(format!("{e}")), true),
                },
                Cmd::FindIn(cfg, seq, base, cons) => match split_into_sequences(map, &cfg) {
                    Ok(ps) => {
                        let (a, oa) = flatten(&ps.sequence_a);
                        let (b, ob) = flatten(&ps.sequence_b);
                        let (c, oc) = flatten(&ps.sequence_c);
                        let sub = match seq % 3 {
                            0 => &ps.sequence_a,
                            1 => &ps.sequence_b,
                            _ => &ps.sequence_c,
                        };
                        let mut t = tracker.lock().unwrap();
                        let cons_refs: Option<Vec<&str>> = cons.as_ref().map(|c| c.iter().map(|s| s.as_str()).collect());
                        let r = find_field_with_variant_sequential_constrained(sub, &base, &mut t, cons_refs.as_deref());
                        Resp::FoundIn(Ok(([a, b, c], oa && ob && oc, r)))
                    }
                    Err(e) => Resp::FoundIn(Err(format!("{e}"))),
                },
                Cmd::Repetitive(marker) => match parse_repetitive_sequence::<swift_mt_message::messages::MT101>(map, &marker) {
                    Ok(items) => {
                        let mut ord = true;
                        let v = items
                            .iter()
                            .map(|m| {
                                let (f, o) = flatten(m);
                                ord &= o;
                                f
                            })
                            .collect();
                        Resp::Items(Ok(v), ord)
                    }
                    Err(e) => Resp::Items(Err(format!("{e}")), true),
                },
                Cmd::Quit => Resp::Done,
            }
        }));
        let resp = r.unwrap_or_else(|p| {
            Resp::Panicked(p.downcast_ref::<String>().cloned().or(p.downcast_ref::<&str>().map(|s| s.to_string())).unwrap_or("panic".into()))
        });
        if tx.send(resp).is_err() {
            break;
        }
    }
}

fn viol(class: &str, detail: String) -> Violation {
    Violation { property: "C16".into(), class: class.to_string(), detail }
}

/// The reference model.
struct Model {
    /// occurrences in input order: (key chosen by the tokeniser, content, stamp)
    flat: Vec<(String, String, usize)>,
    consumed: BTreeMap<String, BTreeSet<usize>>,
    consumed_list: Vec<(String, usize)>,
}

impl Model {
    fn is_consumed(&self, key: &str, pos: usize) -> bool {
        self.consumed.get(key).is_some_and(|s| s.contains(&pos))
    }
    fn mark(&mut self, key: &str, pos: usize) {
        if self.consumed.entry(key.to_string()).or_default().insert(pos) {
            self.consumed_list.push((key.to_string(), pos));
        }
    }
    fn next_for_key(&self, key: &str) -> Option<usize> {
        self.flat.iter().position(|f| f.0 == key && !self.is_consumed(key, f.2))
    }
    /// (index, variant letter, constraint excluded an earlier candidate)
    fn expect_find(&self, base: &str, cons: &Option<Vec<String>>) -> (Option<(usize, Option<String>)>, bool) {
        self.expect_find_in(base, cons, None)
    }
    /// same, restricted to the occurrences whose stamps are in `only` (a sequence of a split)
    fn expect_find_in(&self, base: &str, cons: &Option<Vec<String>>, only: Option<&BTreeSet<usize>>) -> (Option<(usize, Option<String>)>, bool) {
        let inside = |f: &(String, String, usize)| only.is_none_or(|o| o.contains(&f.2));
        if let Some(i) = self.flat.iter().position(|f| f.0 == base && inside(f) && !self.is_consumed(base, f.2)) {
            return (Some((i, None)), false);
        }
        let mut excluded = false;
        for (i, f) in self.flat.iter().enumerate() {
            if !inside(f) {
                continue;
            }
            if f.0.len() == base.len() + 1 && f.0.starts_with(base) && !self.is_consumed(&f.0, f.2) {
                let l = f.0.chars().last().unwrap();
                if l.is_ascii_uppercase() {
                    let ls = l.to_string();
                    if cons.as_ref().is_none_or(|c| c.contains(&ls)) {
                        return (Some((i, Some(ls))), excluded);
                    }
                    excluded = true;
                }
            }
        }
        (None, excluded)
    }
}

fn t1_check(occs: &[(String, String)], flat: &[(String, String, usize)], per_tag_ordered: bool) -> Option<Violation> {
    if flat.len() != occs.len() {
        return Some(viol("C16/T1 tokeniser count", format!("the text has {} field occurrences, the map holds {}", occs.len(), flat.len())));
    }
    for (i, (o, f)) in occs.iter().zip(flat.iter()).enumerate() {
        let raw = &o.0;
        let num = digits_prefix(raw);
        let suffix = &raw[num.len()..];
        let lettered = !raw.contains('#') && !num.is_empty() && !suffix.is_empty() && suffix.chars().all(|c| c.is_ascii_uppercase());
        // documented as preserved: 23B/23E, 71A/71F/71G; for other lettered tags
        // the documentation and the code disagree about which are shortened, so
        // either spelling is accepted (DESIGN §5 C16/T1)
        let must_keep = !lettered || num == "23" || num == "71";
        let key_ok = f.0 == *raw || (!must_keep && f.0 == num);
        if !key_ok {
            return Some(viol("C16/T1 tokeniser key", format!("occurrence {i}: tag `{raw}` filed under key `{}`", f.0)));
        }
        if f.1 != o.1 {
            return Some(viol("C16/T1 tokeniser content", format!("occurrence {i} (tag {raw}): content {:?} but the text has {:?}", f.1, o.1)));
        }
        if i > 0 && f.2 <= flat[i - 1].2 {
            return Some(viol("C16/T1 stamps not strictly increasing", format!("occurrence {i} (tag {raw}) has stamp {} after {}", f.2, flat[i - 1].2)));
        }
    }
    if !per_tag_ordered {
        return Some(viol("C16/T1 per-tag order", "a per-tag value vector is not in input order".into()));
    }
    None
}

fn t4_split_check(name: &str, flat: &[(String, String, usize)], parts: &[Vec<(String, String, usize)>; 3], ord: bool) -> Option<Violation> {
    let mut all: Vec<(String, String, usize)> = parts.iter().flatten().cloned().collect();
    all.sort_by(|a, b| a.2.cmp(&b.2).then(a.0.cmp(&b.0)).then(a.1.cmp(&b.1)));
    if all != flat {
        let lost = flat.iter().filter(|f| !all.contains(f)).count();
        let extra = all.iter().filter(|f| !flat.contains(f)).count();
        return Some(viol(
            "C16/T4 split is not a partition",
            format!("config {name}: {} fields in, {} out ({lost} lost, {extra} invented or duplicated)", flat.len(), all.len()),
        ));
    }
    if !ord {
        return Some(viol("C16/T4 split per-tag order", format!("config {name}: a per-tag vector of a sequence is not in input order")));
    }
    let always_a = ["72", "77E", "79"];
    let rng = |v: &Vec<(String, String, usize)>| {
        let it = v.iter().filter(|f| !always_a.contains(&f.0.as_str())).map(|f| f.2);
        (it.clone().min(), it.max())
    };
    let (_, amax) = rng(&parts[0]);
    let (bmin, bmax) = rng(&parts[1]);
    let (cmin, _) = rng(&parts[2]);
    let bad = |x: Option<usize>, y: Option<usize>| matches!((x, y), (Some(a), Some(b)) if a >= b);
    if bad(amax, bmin) || bad(bmax, cmin) || bad(amax, cmin) {
        return Some(viol("C16/T4 split not contiguous", format!("config {name}: sequences interleave in input order (A max {amax:?}, B {bmin:?}..{bmax:?}, C min {cmin:?})")));
    }
    None
}

fn t4_items_check(marker: &str, flat: &[(String, String, usize)], items: &[Vec<(String, String, usize)>], ord: bool) -> Option<Violation> {
    let start = flat.iter().position(|f| f.0 == marker);
    let expect: Vec<(String, String, usize)> = start.map(|i| flat[i..].to_vec()).unwrap_or_default();
    let mut all = vec![];
    for it in items {
        if it.is_empty() || it[0].0 != marker {
            return Some(viol("C16/T4 repetitive item does not start with its marker", format!("marker {marker}: an item starts with {:?}", it.first().map(|f| &f.0))));
        }
        if it[1..].iter().any(|f| f.0 == marker) {
            return Some(viol("C16/T4 repetitive item contains a second marker", format!("marker {marker}")));
        }
        if let (Some(l), Some(f)) = (all.last(), it.first()) {
            let l: &(String, String, usize) = l;
            if l.2 >= f.2 {
                return Some(viol("C16/T4 repetitive items out of order", format!("marker {marker}")));
            }
        }
        all.extend(it.iter().cloned());
    }
    if all != expect || !ord {
        return Some(viol(
            "C16/T4 repetitive items do not cover the suffix",
            format!("marker {marker}: items hold {} fields, the text has {} from the first marker on", all.len(), expect.len()),
        ));
    }
    None
}

fn resolve_tag(t: &TagRef, flat: &[(String, String, usize)]) -> String {
    match t {
        TagRef::Literal(s) => s.clone(),
        _ if flat.is_empty() => "20".into(),
        TagRef::KeyOf(i) => flat[i % flat.len()].0.clone(),
        TagRef::BaseOf(i) => {
            let k = &flat[i % flat.len()].0;
            let d = digits_prefix(k);
            if d.is_empty() { k.clone() } else { d.to_string() }
        }
    }
}

struct Phase {
    history: Vec<String>,
    violation: Option<Violation>,
    discard: Option<String>,
    counters: BTreeMap<String, u64>,
    variant_responses: u64,
    consuming_successes: usize,
    claimed_directly: usize,
    n: usize,
}

/// One operations phase: consumers on fresh threads under hash entropy `e_h`.
fn run_phase(ctx: &Arc<seam::RunCtx>, e_h: u64, text: &str, occs: &[(String, String)], spec: &Spec, rotate: usize) -> Phase {
    let mut ph = Phase { history: vec![], violation: None, discard: None, counters: BTreeMap::new(), variant_responses: 0, consuming_successes: 0, claimed_directly: 0, n: occs.len() };
    ctx.rekey_entropy(e_h);
    let k = spec.consumers.clamp(1, 4);
    let tracker = Arc::new(Mutex::new(FieldConsumptionTracker::new()));
    let mut cmd_tx = vec![];
    let mut resp_rx = vec![];
    let mut handles = vec![];
    for _ in 0..k {
        let (ctx_c, text_c, tr) = (ctx.clone(), text.to_string(), tracker.clone());
        let (tx, rx) = mpsc::channel::<Cmd>();
        let (rtx, rrx) = mpsc::channel::<Resp>();
        cmd_tx.push(tx);
        resp_rx.push(rrx);
        handles.push(std::thread::spawn(move || {
            let _a = seam::attach(&ctx_c);
            consumer_loop(text_c, tr, rx, rtx);
        }));
    }
    let mut count = |ph: &mut Phase, key: &str| *ph.counters.entry(key.to_string()).or_insert(0) += 1;
    let call = |c: usize, cmd: Cmd| -> Resp {
        let c = (c + rotate) % k;
        if cmd_tx[c].send(cmd).is_err() {
            return Resp::Panicked("consumer thread gone".into());
        }
        resp_rx[c].recv().unwrap_or(Resp::Panicked("consumer thread gone".into()))
    };

    // T1 on consumer 0's map instance
    let flat = match call(0, Cmd::Retokenise) {
        Resp::Tokenised(Ok(f), ord) => {
            if let Some(v) = t1_check(occs, &f, ord) {
                ph.violation = Some(v);
            }
            f
        }
        Resp::Tokenised(Err(e), _) => {
            ph.violation = Some(viol("C16/T1 tokeniser rejects a segmentable text", format!("parse_block4_fields: {e}")));
            vec![]
        }
        Resp::Panicked(p) => {
            ph.discard = Some(format!("panic in tokeniser: {}", p.chars().take(80).collect::<String>()));
            vec![]
        }
        _ => vec![],
    };
    ph.history.push(format!("tokenised n={} digest={}", flat.len(), hex(fnv_str(&format!("{flat:?}")))));
    let mut model = Model { flat: flat.clone(), consumed: BTreeMap::new(), consumed_list: vec![] };
    let cfgs = split_configs();

    let mut script: Vec<Step> = spec.script.clone();
    if spec.drain {
        // drain: every key until exhausted (+1 request that must return None)
        let mut keys: Vec<String> = flat.iter().map(|f| f.0.clone()).collect();
        keys.sort();
        keys.dedup();
        for (ki, key) in keys.iter().enumerate() {
            let cnt = flat.iter().filter(|f| &f.0 == key).count();
            for _ in 0..=cnt {
                script.push(Step { consumer: ki, req: Req::Find { tag: TagRef::Literal(key.clone()), constraint: None } });
            }
        }
    }
    let script_len = spec.script.len();
    for (si, st) in script.iter().enumerate() {
        if ph.violation.is_some() || ph.discard.is_some() {
            break;
        }
        let c = st.consumer % k;
        let draining = si >= script_len;
        match &st.req {
            Req::Find { .. } | Req::FindNumbered { .. } | Req::FindPresent { .. } => {
                let (base, constraint_owned, numbered): (String, Option<Vec<String>>, Option<String>) = match &st.req {
                    Req::Find { tag, constraint } => (resolve_tag(tag, &flat), constraint.clone(), None),
                    Req::FindNumbered { tag, constraint, numbered } => (resolve_tag(tag, &flat), constraint.clone(), Some(numbered.clone())),
                    Req::FindPresent { tag, mask, numbered } => {
                        // constraint drawn from the option letters that actually coexist in the text for this base
                        let base = resolve_tag(tag, &flat);
                        let mut present: Vec<String> = flat
                            .iter()
                            .filter(|f| f.0.len() == base.len() + 1 && f.0.starts_with(&base) && f.0.chars().last().is_some_and(|c| c.is_ascii_uppercase()))
                            .map(|f| f.0.chars().last().unwrap().to_string())
                            .collect();
                        present.sort();
                        present.dedup();
                        let mut chosen: Vec<String> = present.iter().enumerate().filter(|(j, _)| mask >> (j % 16) & 1 == 1).map(|(_, l)| l.clone()).collect();
                        if chosen.is_empty() {
                            chosen = present.clone();
                        }
                        if present.len() >= 2 && chosen.len() >= 2 {
                            count(&mut ph, "probe.constraint_allows_two_coexisting_variants");
                        }
                        (base, Some(chosen), if *numbered { Some("50#2".to_string()) } else { None })
                    }
                    _ => unreachable!(),
                };
                let constraint = &constraint_owned;
                let (exp, excluded) = model.expect_find(&base, constraint);
                let got = call(c, Cmd::Find(base.clone(), constraint.clone(), numbered.clone()));
                let Resp::Found(got) = got else {
                    if let Resp::Panicked(p) = got {
                        ph.discard = Some(format!("panic in find: {}", p.chars().take(80).collect::<String>()));
                    }
                    break;
                };
                count(&mut ph, "ops.find");
                if excluded {
                    count(&mut ph, "probe.constraint_excluded_a_candidate");
                }
                if base == "50" && constraint.is_some() {
                    count(&mut ph, "probe.field50_routing_branch");
                }
                let expv = exp.as_ref().map(|(i, l)| (flat[*i].1.clone(), l.clone(), flat[*i].2));
                ph.history.push(format!("{si} c{c} find({base},{constraint:?}{}) -> {}", numbered.map(|n| format!(",{n}")).unwrap_or_default(), match &got { Some((_, l, p)) => format!("stamp {p} var {l:?}"), None => "None".into() }));
                if got != expv {
                    let what = match (&expv, &got) {
                        (Some(_), None) => "an unconsumed occurrence was not returned (lost)",
                        (None, Some(_)) => "an occurrence was returned although none is available (duplicated or invented)",
                        (Some(e), Some(g)) if g.2 != e.2 => "a different occurrence than the earliest unconsumed one was returned (reordered)",
                        _ => "content or option letter of the returned occurrence is wrong",
                    };
                    ph.violation = Some(viol(
                        if draining { "C16/T3 drain" } else { "C16/T2 sequential consumption" },
                        format!("step {si}: find(base={base}, constraint={constraint:?}) expected {:?}, got {:?}: {what}", expv.as_ref().map(|e| (e.2, &e.1, &e.0)), got.as_ref().map(|g| (g.2, &g.1, &g.0))),
                    ));
                    break;
                }
                match &exp {
                    Some((i, l)) => {
                        let key = flat[*i].0.clone();
                        model.mark(&key, flat[*i].2);
                        ph.consuming_successes += 1;
                        if l.is_some() {
                            ph.variant_responses += 1;
                            count(&mut ph, "probe.resp_variant");
                        } else {
                            count(&mut ph, "probe.resp_exact");
                        }
                    }
                    None => count(&mut ph, "probe.resp_none"),
                }
            }
            Req::Peek { tag } | Req::Take { tag } => {
                let key = resolve_tag(tag, &flat);
                let take = matches!(st.req, Req::Take { .. });
                let exp = model.next_for_key(&key).map(|i| (flat[i].1.clone(), flat[i].2));
                let got = call(c, if take { Cmd::Take(key.clone()) } else { Cmd::Peek(key.clone()) });
                let Resp::Peeked(got) = got else {
                    if let Resp::Panicked(p) = got {
                        ph.discard = Some(format!("panic in tracker: {}", p.chars().take(80).collect::<String>()));
                    }
                    break;
                };
                count(&mut ph, if take { "ops.take" } else { "ops.peek" });
                ph.history.push(format!("{si} c{c} {}({key}) -> {:?}", if take { "take" } else { "peek" }, got.as_ref().map(|g| g.1)));
                if got != exp {
                    ph.violation = Some(viol("C16/T2 tracker next-available", format!("step {si}: get_next_available({key}) expected {exp:?}, got {got:?}")));
                    break;
                }
                if take {
                    if let Some((_, p)) = exp {
                        model.mark(&key, p);
                        ph.consuming_successes += 1;
                    }
                }
            }
            Req::MarkAhead { tag, nth } => {
                let key = resolve_tag(tag, &flat);
                let open: Vec<usize> = flat.iter().filter(|f| f.0 == key && !model.is_consumed(&key, f.2)).map(|f| f.2).collect();
                if !open.is_empty() {
                    let pos = open[nth % open.len()];
                    call(c, Cmd::Mark(key.clone(), pos));
                    model.mark(&key, pos);
                    ph.claimed_directly += 1;
                    if pos != open[0] {
                        count(&mut ph, "probe.out_of_order_claim");
                    }
                    count(&mut ph, "ops.mark_ahead");
                    ph.history.push(format!("{si} c{c} mark_ahead({key},{pos})"));
                }
            }
            Req::FindInSeq { cfg, seq, tag, constraint } => {
                let (name, cf) = &cfgs[cfg % cfgs.len()];
                let base = resolve_tag(tag, &flat);
                match call(c, Cmd::FindIn(cf.clone(), *seq, base.clone(), constraint.clone())) {
                    Resp::FoundIn(Ok((parts, ord, got))) => {
                        count(&mut ph, "ops.find_in_sequence");
                        if let Some(v) = t4_split_check(name, &flat, &parts, ord) {
                            ph.violation = Some(v);
                            break;
                        }
                        let only: BTreeSet<usize> = parts[seq % 3].iter().map(|f| f.2).collect();
                        let (exp, _) = model.expect_find_in(&base, constraint, Some(&only));
                        let expv = exp.as_ref().map(|(i, l)| (flat[*i].1.clone(), l.clone(), flat[*i].2));
                        ph.history.push(format!("{si} c{c} find_in({name},{},{base},{constraint:?}) -> {}", ["A", "B", "C"][seq % 3], match &got { Some((_, l, p)) => format!("stamp {p} var {l:?}"), None => "None".into() }));
                        if got != expv {
                            ph.violation = Some(viol(
                                "C16/T2 sequential consumption inside a split sequence",
                                format!("step {si}: find(base={base}, constraint={constraint:?}) on sequence {} of split {name} with the shared tracker expected {:?}, got {:?}", ["A", "B", "C"][seq % 3], expv.as_ref().map(|e| (e.2, &e.1, &e.0)), got.as_ref().map(|g| (g.2, &g.1, &g.0))),
                            ));
                            break;
                        }
                        if let Some((i, l)) = &exp {
                            let key = flat[*i].0.clone();
                            model.mark(&key, flat[*i].2);
                            ph.consuming_successes += 1;
                            if l.is_some() {
                                ph.variant_responses += 1;
                            }
                            count(&mut ph, "probe.resp_found_in_split_sequence");
                        }
                    }
                    Resp::FoundIn(Err(e)) => ph.violation = Some(viol("C16/T4 split fails", format!("config {name}: {e}"))),
                    Resp::Panicked(p) => ph.discard = Some(format!("panic in find-in-sequence: {}", p.chars().take(80).collect::<String>())),
                    _ => {}
                }
            }
            Req::Remark { nth } => {
                if !model.consumed_list.is_empty() {
                    let (key, pos) = model.consumed_list[nth % model.consumed_list.len()].clone();
                    call(c, Cmd::Mark(key.clone(), pos));
                    count(&mut ph, "ops.remark");
                    ph.history.push(format!("{si} c{c} remark({key},{pos})"));
                }
            }
            Req::MarkForeign { nth } => {
                if !flat.is_empty() {
                    let pos = flat[nth % flat.len()].2;
                    call(c, Cmd::Mark("ZZ9".into(), pos));
                    model.mark("ZZ9", pos);
                    count(&mut ph, "ops.mark_foreign");
                    ph.history.push(format!("{si} c{c} mark_foreign(ZZ9,{pos})"));
                }
            }
            Req::CloneTracker => {
                call(c, Cmd::CloneTracker);
                count(&mut ph, "probe.clone_and_continue");
                ph.history.push(format!("{si} c{c} clone"));
            }
            Req::CloneHold => {
                call(c, Cmd::CloneHold);
                count(&mut ph, "probe.clone_kept_alive");
                ph.history.push(format!("{si} c{c} clone_hold"));
            }
            Req::Retokenise => {
                if let Resp::Tokenised(r, ord) = call(c, Cmd::Retokenise) {
                    count(&mut ph, "ops.retokenise");
                    match r {
                        Ok(f) => {
                            ph.history.push(format!("{si} c{c} retokenise -> {}", hex(fnv_str(&format!("{f:?}")))));
                            if let Some(v) = t1_check(occs, &f, ord) {
                                ph.violation = Some(v);
                            } else if f != flat {
                                ph.violation = Some(viol("C16/T5 tokeniser result differs between map instances", format!("step {si}: a second tokenisation of the same text gave a different field list")));
                            }
                        }
                        Err(e) => ph.violation = Some(viol("C16/T1 tokeniser rejects a segmentable text", format!("parse_block4_fields: {e}"))),
                    }
                }
            }
            Req::Split { cfg } => {
                let (name, cf) = &cfgs[cfg % cfgs.len()];
                match call(c, Cmd::Split(cf.clone())) {
                    Resp::Split(Ok(parts), ord) => {
                        count(&mut ph, "ops.split");
                        if !parts[1].is_empty() {
                            count(&mut ph, "probe.split_sequence_b_nonempty");
                        }
                        if !parts[2].is_empty() {
                            count(&mut ph, "probe.split_sequence_c_nonempty");
                        }
                        let asg: Vec<String> = parts.iter().map(|p| p.iter().map(|f| f.2.to_string()).collect::<Vec<_>>().join(",")).collect();
                        ph.history.push(format!("{si} c{c} split({name}) -> A[{}] B[{}] C[{}]", asg[0], asg[1], asg[2]));
                        if let Some(v) = t4_split_check(name, &flat, &parts, ord) {
                            ph.violation = Some(v);
                        }
                    }
                    Resp::Split(Err(e), _) => ph.violation = Some(viol("C16/T4 split fails", format!("config {name}: {e}"))),
                    Resp::Panicked(p) => ph.discard = Some(format!("panic in split: {}", p.chars().take(80).collect::<String>())),
                    _ => {}
                }
            }
            Req::Repetitive { marker } => {
                let m = resolve_tag(marker, &flat);
                match call(c, Cmd::Repetitive(m.clone())) {
                    Resp::Items(Ok(items), ord) => {
                        count(&mut ph, "ops.repetitive");
                        if items.len() > 1 {
                            count(&mut ph, "probe.repetitive_multiple_items");
                        }
                        ph.history.push(format!("{si} c{c} repetitive({m}) -> {:?}", items.iter().map(|i| i.len()).collect::<Vec<_>>()));
                        if let Some(v) = t4_items_check(&m, &flat, &items, ord) {
                            ph.violation = Some(v);
                        }
                    }
                    Resp::Items(Err(e), _) => ph.violation = Some(viol("C16/T4 repetitive parse fails", format!("marker {m}: {e}"))),
                    Resp::Panicked(p) => ph.discard = Some(format!("panic in repetitive: {}", p.chars().take(80).collect::<String>())),
                    _ => {}
                }
            }
        }
    }
    // T3: after the drain every occurrence was handed out exactly once
    if spec.drain && ph.violation.is_none() && ph.discard.is_none() {
        let handed: usize = flat.iter().filter(|f| model.is_consumed(&f.0, f.2)).count();
        if handed != flat.len() || ph.consuming_successes + ph.claimed_directly != flat.len() {
            ph.violation = Some(viol("C16/T3 drain", format!("{} occurrences, {} handed out in {} successful responses + {} direct claims", flat.len(), handed, ph.consuming_successes, ph.claimed_directly)));
        }
    }
    for tx in &cmd_tx {
        let _ = tx.send(Cmd::Quit);
    }
    for h in handles {
        let _ = h.join();
    }
    ph
}

impl Engine for C16 {
    type Spec = Spec;
    const ID: &'static str = "consume-history";
    const PROPERTY: &'static str = "C16";

    fn plan(env: &Env, base: u64, i: u64) -> Spec {
        let nf = env.scenarios.len() as u64;
        let sc = &env.scenarios[(i % nf) as usize];
        let run_seed = derive(base, "consume/run", i);
        let mut w = Sm(derive(run_seed, "workload", 0));
        let mut s = Sm(derive(run_seed, "sched", 0));
        // swarm knobs
        let n_muts = *w.pick(&[0usize, 0, 1, 2, 3, 4]);
        let mut text_muts = vec![];
        // one run in twelve works on a long text
        if w.chance(1, 12) {
            // mostly a few hundred fields; sometimes more than a thousand (tens of kilobytes)
            text_muts.push(TextMut::Repeat { times: if w.chance(1, 4) { 30 + w.below(34) } else { 3 + w.below(12) } });
        }
        if w.chance(1, 6) {
            text_muts.push(TextMut::NoLeadingNewline);
        }
        // one run in eight carries non-ASCII content (1 … 40 two-byte characters, sometimes in two fields)
        if w.chance(1, 8) {
            for _ in 0..1 + w.below(2) {
                text_muts.push(TextMut::NonAscii { i: w.below(1000), n: 1 + w.below(40) });
            }
        }
        // one run in fifty has more than 65 535 LINES: two long fields, so that fields lie before, between
        // and after them (line numbers below, near and beyond the 16-bit limit)
        if w.chance(1, 50) {
            text_muts.push(TextMut::ManyLines { i: w.below(1000), n: 36_000 + w.below(24_000) });
            text_muts.push(TextMut::ManyLines { i: w.below(1000), n: 30_000 + w.below(12_000) });
        }
        for _ in 0..n_muts {
            let (a, b) = (w.below(1000), w.below(1000));
            text_muts.push(match w.below(22) {
                0..=2 => TextMut::Dup { i: a, j: b },
                3 | 4 => TextMut::Swap { i: a, j: b },
                5..=8 => TextMut::Letter { i: a, letter: (*w.pick(&["A", "B", "C", "D", "F", "G", "H", "K", "L", "", "A", "F", "K", "a", "f", "k", "AB", "1"])).to_string() },
                9 | 10 => TextMut::Insert {
                    j: b,
                    tag: (*w.pick(&["99Z", "50K", "50A", "50F", "50C", "50L", "50G", "50H", "59", "59A", "59F", "52A", "52D", "21", "23E", "72", "79", "86", "61", "32B", "71F", "12"])).to_string(),
                    content: (*w.pick(&["X: Y", "/ACC/1:2:3", "LINE1\nLINE2", "0,", "A\n-B"])).to_string(),
                },
                11 | 12 => TextMut::Delete { i: a },
                13 => TextMut::BlankAfter { i: a },
                14 => TextMut::Pad { i: a },
                15 => TextMut::Crlf,
                16 | 17 => TextMut::CrlfAt { i: a },
                20 | 21 => TextMut::Empty { i: a },
                _ => TextMut::Append { i: a, last: w.chance(1, 2), suffix: (*w.pick(&["-", " -", ".", ",", "/", ":", "-X", "\n-", "\n/-"])).to_string() },
            });
        }
        let consumers = 1 + s.below(4);
        let n_steps = 8 + s.below(72);
        let mut script = vec![];
        for _ in 0..n_steps {
            let tag = match w.below(10) {
                0..=4 => TagRef::BaseOf(w.below(1000)),
                5..=7 => TagRef::KeyOf(w.below(1000)),
                8 => TagRef::Literal((*w.pick(&["50", "59", "52", "57", "21", "32", "71", "23", "60", "62"])).to_string()),
                _ => TagRef::Literal("99".into()),
            };
            let constraint = if w.chance(1, 2) {
                None
            } else {
                let k = 1 + w.below(4);
                Some((0..k).map(|_| (*w.pick(LETTERS)).to_string()).collect())
            };
            let req = match w.below(52) {
                46..=51 => Req::FindPresent { tag: if w.chance(1, 3) { TagRef::Literal("50".into()) } else { TagRef::BaseOf(w.below(1000)) }, mask: w.next() as u32 | if w.chance(1, 2) { 0xffff } else { 0 }, numbered: w.chance(1, 3) },
                0..=21 => Req::Find { tag, constraint },
                22..=24 => Req::FindNumbered { tag, constraint, numbered: format!("50#{}", 1 + w.below(2)) },
                25 | 26 => Req::Peek { tag },
                27..=29 => Req::Take { tag: TagRef::KeyOf(w.below(1000)) },
                30 => Req::Remark { nth: w.below(1000) },
                31 => Req::MarkForeign { nth: w.below(1000) },
                32 => if w.chance(1, 2) { Req::CloneTracker } else { Req::CloneHold },
                33 => Req::Retokenise,
                34..=37 => Req::Split { cfg: w.below(64) },
                40..=42 => Req::MarkAhead { tag: TagRef::KeyOf(w.below(1000)), nth: w.below(8) },
                43..=45 => Req::FindInSeq { cfg: w.below(64), seq: w.below(3), tag, constraint },
                _ => Req::Repetitive { marker: if w.chance(1, 2) { TagRef::Literal((*w.pick(&["21", "61", "20", "23", "32B"])).to_string()) } else { TagRef::KeyOf(w.below(1000)) } },
            };
            script.push(Step { consumer: s.below(consumers), req });
        }
        Spec {
            run_seed,
            scenario: sc.rel.clone(),
            scenario_digest: hex(sc.digest),
            e_w: derive(run_seed, "entropy/draw", 0),
            e_h: derive(run_seed, "entropy/hash", 0),
            paired_e_h: derive(run_seed, "entropy/hash", 1),
            text_muts,
            text: None,
            crlf: false,
            no_leading_newline: false,
            consumers,
            script,
            drain: true,
            mono_tick_ns: *s.pick(&[1_000i64, 1_000, 1_000, 1_000_000, 20_000_000, 300_000_000, 10_000_000_000]),
            env_fault: if w.chance(1, 4) { Some((w.below(1000), w.below(1000))) } else { None },
        }
    }

    fn execute(env: &Env, spec: &Spec) -> (Outcome, Option<Spec>) {
        let mut out = Outcome::default();
        out.log.push(format!(
            "run_seed={} engine=consume-history scenario={} e_w={} e_h={} paired_e_h={} consumers={} steps={} text_muts={:?} explicit_text={}",
            spec.run_seed, spec.scenario, hex(spec.e_w), hex(spec.e_h), hex(spec.paired_e_h), spec.consumers, spec.script.len(), spec.text_muts, spec.text.is_some()
        ));
        let sc = if spec.text.is_none() {
            match scen::find(&env.scenarios, &spec.scenario) {
                Some(s) => Some(s.clone()),
                None => {
                    out.harness_error = Some(format!("scenario {} not found", spec.scenario));
                    return (out, None);
                }
            }
        } else {
            None
        };
        let clock = ClockCfg { start_ns: seam::ns_of(2026, 1, 1, 0, 0, 0, 0) + (spec.run_seed % 1_000_000) as i64 * 86_400_000_000, mono_tick_ns: spec.mono_tick_ns, ..ClockCfg::plain() };
        let ctx = clock.ctx(spec.e_w);
        let ctx2 = ctx.clone();
        let spec2 = spec.clone();
        let env_set = apply_env_fault(env, spec.env_fault);
        if env_set.is_some() {
            out.count("fault.env.variable_named_in_source_set", 1);
        }
        let o2 = out.clone();
        let res = on_fresh_thread(move || {
            let mut out = o2;
            let _a = seam::attach(&ctx2);
            // key this (scheduler) thread's RandomState now, under E_w, so that no
            // later map created on it draws from the operations-phase stream
            let _ = std::collections::hash_map::RandomState::new();
            // generation phase (under E_w)
            let (mut occs, mut crlf) = (vec![], spec2.crlf);
            match (&spec2.text, &sc) {
                (Some(t), _) => occs = t.clone(),
                (None, Some(sc)) => {
                    let g = match datafake_rs::DataGenerator::from_value(sc.value.clone()).map_err(|e| format!("{e:?}")).and_then(|g| g.generate().map_err(|e| format!("{e:?}"))) {
                        Ok(g) => g,
                        Err(e) => {
                            out.discard = Some(format!("generation failed: {}", e.chars().take(60).collect::<String>()));
                            return (out, None);
                        }
                    };
                    let text = match std::panic::catch_unwind(std::panic::AssertUnwindSafe(|| mt::json_to_text(&sc.mt, &g))) {
                        Ok(Ok(t)) => t,
                        _ => {
                            out.discard = Some("draw does not publish".into());
                            return (out, None);
                        }
                    };
                    let b4 = SwiftParser::extract_block(&text, 4).ok().flatten().unwrap_or_default();
                    // the envelope terminator is not part of the field list
                    let b4 = b4.trim_end().strip_suffix("\n-").unwrap_or(b4.trim_end()).to_string();
                    match ref_tokenise(&b4) {
                        Some(v) => occs = v.into_iter().map(|(t, c)| Occ { tag: t, content: c, blank_after: false, pad: false, crlf: false }).collect(),
                        None => {
                            out.discard = Some("published block 4 not segmentable by the reference tokeniser".into());
                            return (out, None);
                        }
                    }
                }
                _ => {}
            }
            let mut no_lead = spec2.no_leading_newline;
            apply_text_muts(&mut occs, &spec2.text_muts, &mut crlf, &mut no_lead);
            let text = render(&occs, crlf);
            let text = if no_lead { text.trim_start_matches(['\r', '\n']).to_string() } else { text };
            let Some(expected) = ref_tokenise(&text) else {
                out.discard = Some("mutated text not segmentable by the reference tokeniser".into());
                return (out, None);
            };
            if expected.len() >= 65_536 {
                out.discard = Some("more than 65535 fields".into());
                return (out, None);
            }
            out.content_digest = fnv_str(&text);
            out.log.push(format!("text {} fields={} bytes={} crlf={crlf}", hex(out.content_digest), expected.len(), text.len()));
            let mut resolved = spec2.clone();
            resolved.text = Some(occs.clone());
            resolved.text_muts = vec![];
            resolved.crlf = crlf;
            resolved.no_leading_newline = no_lead;

            // operations phase A, then the paired phase B under a second hash entropy
            let a = run_phase(&ctx2, spec2.e_h, &text, &expected, &spec2, 0);
            for l in &a.history {
                out.log.push(format!("A {l}"));
            }
            for (k, v) in &a.counters {
                out.count(k, *v);
            }
            if let Some(d) = a.discard {
                out.discard = Some(d);
                return (out, Some(resolved));
            }
            if let Some(v) = a.violation {
                out.violation = Some(v);
                return (out, Some(resolved));
            }
            let b = run_phase(&ctx2, spec2.paired_e_h, &text, &expected, &spec2, 1);
            out.count("paired_runs", 1);
            if let Some(d) = b.discard {
                out.discard = Some(d);
                return (out, Some(resolved));
            }
            if let Some(mut v) = b.violation {
                v.detail = format!("(in the paired execution under the second hash entropy) {}", v.detail);
                out.violation = Some(v);
                return (out, Some(resolved));
            }
            if a.history != b.history {
                let at = a.history.iter().zip(b.history.iter()).position(|(x, y)| x != y).unwrap_or(a.history.len().min(b.history.len()));
                let differs = true;
                if differs {
                    let kind = if a.history.get(at).is_some_and(|l| l.contains("split(")) { "split" } else { "responses" };
                    out.violation = Some(viol(
                        &format!("C16/T5 {kind} depend on hash order"),
                        format!("same text and request script under two hash entropies: first difference at history line {at}: `{}` vs `{}`", a.history.get(at).cloned().unwrap_or_default(), b.history.get(at).cloned().unwrap_or_default()),
                    ));
                    return (out, Some(resolved));
                }
            }
            // non-trivial: a variant response and a repeated base tag
            let mut bases: BTreeMap<String, usize> = BTreeMap::new();
            for (t, _) in &expected {
                *bases.entry(digits_prefix(t).to_string()).or_insert(0) += 1;
            }
            let repeated = bases.values().any(|n| *n >= 2);
            let mut variants_of: BTreeMap<String, BTreeSet<String>> = BTreeMap::new();
            for (t, _) in &expected {
                variants_of.entry(digits_prefix(t).to_string()).or_default().insert(t.clone());
            }
            if variants_of.values().any(|s| s.len() >= 2) {
                out.count("probe.coexisting_variants_of_one_base", 1);
            }
            out.nontrivial = a.variant_responses > 0 && repeated;
            out.count("requests", (a.history.len() as u64).saturating_sub(1));
            out.count("occurrences", a.n as u64);
            (out, Some(resolved))
        });
        let (mut out, resolved) = match res {
            Ok(x) => x,
            Err(p) => {
                out.discard = Some(format!("panic in harness thread: {}", p.chars().take(80).collect::<String>()));
                (out, None)
            }
        };
        clear_env_fault(env_set);
        out.absorb_ctx(&ctx);
        out.sim_ns = 0;
        if spec.mono_tick_ns >= 20_000_000 && out.counters.get("seam.monotonic_clock_reads").copied().unwrap_or(0) > 0 {
            out.count("fault.clock.slow_node_monotonic_tick_observed", 1);
        }
        let shape: Vec<String> = spec.script.iter().map(|s| format!("{}{}", s.consumer, match &s.req { Req::Find { constraint, .. } => if constraint.is_some() { "Fc" } else { "F" }, Req::FindNumbered { .. } => "N", Req::Peek { .. } => "P", Req::Take { .. } => "T", Req::Remark { .. } => "R", Req::MarkForeign { .. } => "M", Req::CloneTracker => "C", Req::CloneHold => "H", Req::Retokenise => "K", Req::Split { .. } => "S", Req::Repetitive { .. } => "I", Req::MarkAhead { .. } => "A", Req::FindInSeq { .. } => "Q", Req::FindPresent { .. } => "V" })).collect();
        out.shape_digest = fnv_str(&shape.join(" "));
        out.count(&format!("consumers.{}", spec.consumers.clamp(1, 4)), 1);
        (out, resolved)
    }

    fn shrink_candidates(spec: &Spec) -> Vec<Spec> {
        let mut v = vec![];
        if spec.consumers > 1 {
            let mut s = spec.clone();
            s.consumers = 1;
            v.push(s);
        }
        if spec.drain {
            let mut s = spec.clone();
            s.drain = false;
            v.push(s);
        }
        if spec.mono_tick_ns > 1_000 {
            let mut s = spec.clone();
            s.mono_tick_ns = 0;
            v.push(s);
        }
        if spec.env_fault.is_some() {
            let mut s = spec.clone();
            s.env_fault = None;
            v.push(s);
        }
        // halves, then single steps
        let n = spec.script.len();
        if n > 1 {
            let mut s = spec.clone();
            s.script.truncate(n / 2);
            v.push(s);
            let mut s = spec.clone();
            s.script.drain(..n / 2);
            v.push(s);
        }
        for k in (0..n).rev() {
            let mut s = spec.clone();
            s.script.remove(k);
            v.push(s);
        }
        for k in 0..spec.text_muts.len() {
            let mut s = spec.clone();
            s.text_muts.remove(k);
            v.push(s);
        }
        if let Some(t) = &spec.text {
            if spec.crlf {
                let mut s = spec.clone();
                s.crlf = false;
                v.push(s);
            }
            if spec.no_leading_newline {
                let mut s = spec.clone();
                s.no_leading_newline = false;
                v.push(s);
            }
            let m = t.len();
            if m > 1 {
                let mut s = spec.clone();
                s.text = Some(t[..m / 2].to_vec());
                v.push(s);
                let mut s = spec.clone();
                s.text = Some(t[m / 2..].to_vec());
                v.push(s);
            }
            for k in (0..m).rev() {
                let mut s = spec.clone();
                let mut tt = t.clone();
                tt.remove(k);
                s.text = Some(tt);
                v.push(s);
            }
            for k in 0..m {
                if t[k].content.len() > 1 {
                    let mut s = spec.clone();
                    let mut tt = t.clone();
                    tt[k].content = "X".into();
                    tt[k].blank_after = false;
                    tt[k].pad = false;
                    tt[k].crlf = false;
                    s.text = Some(tt);
                    v.push(s);
                }
            }
        }
        v
    }

    fn describe(spec: &Spec) -> Value {
        json!({"scenario": spec.scenario, "e_w": hex(spec.e_w), "e_h": hex(spec.e_h), "paired_e_h": hex(spec.paired_e_h),
               "text_muts": spec.text_muts, "consumers": spec.consumers, "script_steps": spec.script.len(),
               "first_steps": spec.script.iter().take(6).collect::<Vec<_>>()})
    }
}
