use crate::sim::*;
use serde::{Deserialize, Serialize};
#[derive(Serialize, Deserialize, Clone, Debug)]
pub struct Spec { pub run_seed: u64 }
pub struct C13;
impl Engine for C13 {
    type Spec = Spec;
    const ID: &'static str = "validate-history";
    const PROPERTY: &'static str = "C13";
    fn plan(_env: &Env, base: u64, i: u64) -> Spec { Spec { run_seed: base ^ i } }
    fn execute(_env: &Env, _spec: &Spec) -> (Outcome, Option<Spec>) { (Outcome::default(), None) }
    fn shrink_candidates(_spec: &Spec) -> Vec<Spec> { vec![] }
    fn describe(_spec: &Spec) -> serde_json::Value { serde_json::Value::Null }
}
