//! `validate-history` engine — property C13.
//!
//! System: the four validation entry points (`validate_network_rules` full and
//! stop-on-first, `SwiftMessage::validate`, `ParsedSwiftMessage::validate`, the
//! `validate_mt` plugin handler alone and inside a dataflow `Engine`), driven
//! by 1–4 caller threads released one at a time by a seeded scheduler, under
//! simulated hash entropy and a simulated wall clock with jumps between
//! operations. Reference model: "validation is a function of the message".

use crate::mt;
use crate::on_parsed;
use crate::scen;
use crate::seam;
use crate::sim::*;
use crate::util::*;
use dataflow_rs::engine::{AsyncFunctionHandler, FunctionConfig, Message, Workflow};
use serde::{Deserialize, Serialize};
use serde_json::{json, Value};
use std::collections::{BTreeMap, HashMap};
use std::sync::{mpsc, Arc};
use swift_mt_message::{ParsedSwiftMessage, ValidationError};

#[derive(Serialize, Deserialize, Clone, Debug, PartialEq)]
pub enum MutOp {
    Set { path: Vec<String>, value: Value },
    Del { path: Vec<String> },
    Put { path: Vec<String>, key: String, value: Value },
    Dup { path: Vec<String> },
    Rm { path: Vec<String> },
    /// duplicate an array element `times` times (repetition limits: "not more than ten times")
    DupN { path: Vec<String>, times: usize },
    /// repeat a whole array until it has about `target` elements (a large batch with the same findings in every part of it)
    RepeatArray { path: Vec<String>, target: usize },
    /// every array of two or more elements among the message's fields rotated by one (the first occurrence becomes the last)
    RotateArrays,
}

#[derive(Serialize, Deserialize, Clone, Debug, PartialEq)]
pub enum MutPlan {
    /// seeded hill-climb towards `target` reported errors (search step; the
    /// run records the accepted mutations as an `Explicit` plan)
    Climb { seed: u64, target: usize, attempts: usize },
    Explicit(Vec<MutOp>),
}

#[derive(Serialize, Deserialize, Clone, Debug, PartialEq)]
pub struct SubjectSpec {
    pub scenario: String,
    /// another scenario of the same message type (field donor)
    pub donor: String,
    /// a scenario of any message type (cross-type field donor: fields the type's own scenarios never carry)
    #[serde(default)]
    pub donor2: Option<String>,
    /// start from the unmutated draw of an earlier subject (same headers, UETR, references) instead of a fresh draw
    #[serde(default)]
    pub sibling_of: Option<usize>,
    /// rewrite block 2 of the published text into an Output application header (`{2:O…}`) before
    /// the subject is parsed (all shipped scenarios use Input headers); ignored if the library
    /// does not accept the rewritten text
    #[serde(default)]
    pub output_header: bool,
    /// the subject is the typed message deserialised from the (mutated) draw — built in memory, never
    /// parsed from text. Direct entry points are judged on it as on any subject; the plugin (which sees
    /// the message's own serialisation) is judged only when that text parses back to exactly this message.
    #[serde(default)]
    pub typed: bool,
    pub plan: MutPlan,
}

#[derive(Serialize, Deserialize, Clone, Copy, Debug, PartialEq)]
pub enum OpKind {
    VnrFull,
    VnrStop,
    SwiftValidate,
    ParsedValidate,
    PluginDirect,
    PluginEngine,
    CloneVnr,
    Snapshot,
    /// validate, clone, edit the clone in place (public fields), validate the clone through
    /// every direct entry point, and validate the same edit applied to a never-validated copy
    CloneEdit,
    /// validate_mt on the subject's text inside the caller thread's LONG-LIVED dataflow Message
    /// (same source and target fields every time): a pipeline message that is validated again
    PluginReuse,
}

#[derive(Serialize, Deserialize, Clone, Debug, PartialEq)]
pub struct Op {
    pub caller: usize,
    pub subject: usize,
    pub kind: OpKind,
    /// scheduler-injected wall-clock jump before this operation (0 = none)
    pub jump_ns: i64,
    /// CloneEdit: donor subject and kind of edit
    #[serde(default)]
    pub aux: u64,
}

#[derive(Serialize, Deserialize, Clone, Debug)]
pub struct Spec {
    pub run_seed: u64,
    pub subjects: Vec<SubjectSpec>,
    pub e_w: u64,
    pub e_h: u64,
    pub paired_e_h: u64,
    pub paired_sched: u64,
    pub clock: ClockCfg,
    pub callers: usize,
    pub ops: Vec<Op>,
    /// configuration: a tracing subscriber that wants every level is installed on the caller threads
    #[serde(default)]
    pub diag: bool,
    /// configuration fault: (environment variable named in the library's source, value) set during the run
    #[serde(default)]
    pub env_fault: Option<(usize, usize)>,
}

pub struct C13;

// ---------------------------------------------------------------- mutation

const CUR: &[&str] = &["USD", "EUR", "JPY", "GBP", "CHF", "BHD", "XAU", "XXX", "KWD", "CLF"];
const CODES: &[&str] = &[
    "CHQB", "SPRI", "SSTD", "SPAY", "CRED", "CRTS", "OUR", "BEN", "SHA", "SDVA", "INTC", "REPA", "CORT", "HOLD", "PHOB", "TELB", "PHON", "RTGS", "NETS", "URGP", "OTHR", "CMTO", "AUTH", "NAUT", "RFDD", "RTND",
    "EQUI", "TELE", "PHOI", "TELI", "NCHG", "NINT", "CMSW", "CMZB", "CMSW", "CMZB", "CMTO", "CORT", "940", "941", "942", "950", "103", "202", "C", "D", "RC", "RD", "ABCD", "CHEQ", "COLL", "FDDW", "ACCT", "DIRT",
];
const LINES: &[&str] = &["/REJT/", "/RETN/", "/INS/ABNANL2A", "/ACC/TEXT", "/RCB/ABC", "//CONT", "/PURP/CASH", "REJT", "/CLSTIME/0915+0100", "/REC/X", "/INT/Y"];
const POOL: &[&str] = &[
    "EUR", "USD", "JPY", "BHD", "XAU", "CHQB", "SPRI", "SSTD", "SPAY", "CRED", "CRTS", "OUR", "BEN", "SHA", "SDVA", "INTC", "REPA", "CORT", "HOLD", "PHOB", "TELB", "PHON", "RTGS", "NETS", "URGP", "OTHR", "CMTO", "AUTH", "NAUT", "RFDD",
    "RTND", "/REJT/", "/RETN/X", "C", "D", "RC", "RD", "940", "942", "950", "103", "ABCDEF", "DEUTDEFF", "CHASUS33XXX", "/ACC", "/12345678", "AD", "GB", "US",
];

fn leaves(v: &Value, path: Vec<String>, out: &mut Vec<(Vec<String>, bool)>) {
    match v {
        Value::Object(o) => {
            for (k, x) in o {
                let mut p = path.clone();
                p.push(k.clone());
                out.push((p.clone(), false));
                leaves(x, p, out);
            }
        }
        Value::Array(a) => {
            for (i, x) in a.iter().enumerate() {
                let mut p = path.clone();
                p.push(i.to_string());
                out.push((p.clone(), false));
                leaves(x, p, out);
            }
        }
        _ => {
            if let Some(l) = out.last_mut() {
                l.1 = true;
            }
        }
    }
}

fn get_mut<'a>(v: &'a mut Value, p: &[String]) -> Option<&'a mut Value> {
    let mut c = v;
    for k in p {
        c = match c {
            Value::Object(o) => o.get_mut(k)?,
            Value::Array(a) => a.get_mut(k.parse::<usize>().ok()?)?,
            _ => return None,
        };
    }
    Some(c)
}

fn get<'a>(v: &'a Value, p: &[String]) -> Option<&'a Value> {
    let mut c = v;
    for k in p {
        c = match c {
            Value::Object(o) => o.get(k)?,
            Value::Array(a) => a.get(k.parse::<usize>().ok()?)?,
            _ => return None,
        };
    }
    Some(c)
}

pub fn apply_op(g: &mut Value, op: &MutOp) -> bool {
    match op {
        MutOp::Set { path, value } => match get_mut(g, path) {
            Some(t) => {
                *t = value.clone();
                true
            }
            None => false,
        },
        MutOp::Del { path } => {
            let (par, last) = path.split_at(path.len().saturating_sub(1));
            match (get_mut(g, par), last.first()) {
                (Some(Value::Object(o)), Some(k)) => o.remove(k).is_some(),
                _ => false,
            }
        }
        MutOp::Put { path, key, value } => match get_mut(g, path) {
            Some(Value::Object(o)) => {
                o.insert(key.clone(), value.clone());
                true
            }
            _ => false,
        },
        MutOp::RotateArrays => {
            let mut any = false;
            if let Some(Value::Object(f)) = g.get_mut("fields") {
                for (_, v) in f.iter_mut() {
                    if let Value::Array(a) = v {
                        if a.len() >= 2 {
                            a.rotate_left(1);
                            any = true;
                        }
                    }
                }
            }
            any
        }
        MutOp::RepeatArray { path, target } => match get_mut(g, path) {
            Some(Value::Array(a)) if !a.is_empty() && a.len() < *target => {
                let base = a.clone();
                while a.len() + base.len() <= (*target).min(160) {
                    a.extend(base.iter().cloned());
                }
                true
            }
            _ => false,
        },
        MutOp::DupN { path, times } => {
            let (par, last) = path.split_at(path.len().saturating_sub(1));
            let Some(i) = last.first().and_then(|s| s.parse::<usize>().ok()) else { return false };
            match get_mut(g, par) {
                Some(Value::Array(a)) if i < a.len() => {
                    let e = a[i].clone();
                    for _ in 0..(*times).min(140) {
                        a.insert(i, e.clone());
                    }
                    true
                }
                _ => false,
            }
        }
        MutOp::Dup { path } | MutOp::Rm { path } => {
            let (par, last) = path.split_at(path.len().saturating_sub(1));
            let Some(i) = last.first().and_then(|s| s.parse::<usize>().ok()) else { return false };
            match get_mut(g, par) {
                Some(Value::Array(a)) if i < a.len() => {
                    if matches!(op, MutOp::Dup { .. }) {
                        let e = a[i].clone();
                        a.insert(i, e);
                    } else {
                        if a.len() <= 1 {
                            return false;
                        }
                        a.remove(i);
                    }
                    true
                }
                _ => false,
            }
        }
    }
}

/// One rule-directed mutation proposal (typed by JSON key), as an explicit op.
/// Member vocabulary of the field structs: for every `pub struct` in /repo/src/fields/*.rs its members as
/// (name, type, optional). Read once, in sorted file order (no entropy involved).
fn sub_vocab() -> &'static Vec<Vec<(String, String, bool)>> {
    static V: std::sync::OnceLock<Vec<Vec<(String, String, bool)>>> = std::sync::OnceLock::new();
    V.get_or_init(|| {
        let mut out = vec![];
        let dir = scen::repo_root().join("src").join("fields");
        let mut files: Vec<_> = std::fs::read_dir(&dir).map(|rd| rd.flatten().map(|e| e.path()).collect()).unwrap_or_default();
        files.sort();
        for f in files {
            let Ok(src) = std::fs::read_to_string(&f) else { continue };
            let mut rest = src.as_str();
            while let Some(p) = rest.find("pub struct ") {
                let tail = &rest[p..];
                let Some(open) = tail.find('{') else { break };
                let Some(close) = tail[open..].find("\n}") else { break };
                if tail[..open].contains(';') || tail[..open].contains('(') {
                    rest = &tail[11..];
                    continue;
                }
                let body = &tail[open + 1..open + close];
                let mut members = vec![];
                for line in body.lines() {
                    let l = line.trim();
                    if let Some(m) = l.strip_prefix("pub ") {
                        if let Some((name, ty)) = m.split_once(':') {
                            let ty = ty.trim().trim_end_matches(',').trim();
                            let optional = ty.starts_with("Option<");
                            let inner = ty.strip_prefix("Option<").and_then(|t| t.strip_suffix('>')).unwrap_or(ty);
                            members.push((name.trim().to_string(), inner.to_string(), optional));
                        }
                    }
                }
                if members.iter().any(|m| m.2) {
                    out.push(members);
                }
                rest = &tail[open + close..];
            }
        }
        out
    })
}

fn objects_of<'a>(v: &'a Value, path: Vec<String>, depth: usize, out: &mut Vec<(Vec<String>, &'a serde_json::Map<String, Value>)>) {
    if depth > 5 {
        return;
    }
    match v {
        Value::Object(o) => {
            out.push((path.clone(), o));
            for (k, c) in o {
                let mut p = path.clone();
                p.push(k.clone());
                objects_of(c, p, depth + 1, out);
            }
        }
        Value::Array(a) => {
            for (i, c) in a.iter().enumerate() {
                let mut p = path.clone();
                p.push(i.to_string());
                objects_of(c, p, depth + 1, out);
            }
        }
        _ => {}
    }
}

/// An optional member the field struct declares but the draw does not carry, added with a value of its type
/// (`is_negative: Option<bool>` of a rate, an optional code, an optional narrative): combinations of optional
/// sub-components no shipped scenario has.
fn propose_optional_member(g: &Value, r: &mut Sm) -> Option<MutOp> {
    let mut objs = vec![];
    objects_of(&g["fields"], vec!["fields".into()], 0, &mut objs);
    let mut cands: Vec<(Vec<String>, String, String)> = vec![];
    for (path, o) in &objs {
        if path.len() < 2 || o.is_empty() {
            continue;
        }
        for st in sub_vocab() {
            if o.keys().all(|k| st.iter().any(|m| &m.0 == k)) && st.iter().all(|m| m.2 || o.contains_key(&m.0)) {
                for m in st {
                    if m.2 && !o.contains_key(&m.0) && !cands.iter().any(|c| c.0 == *path && c.1 == m.0) {
                        cands.push((path.clone(), m.0.clone(), m.1.clone()));
                    }
                }
            }
        }
    }
    if cands.is_empty() {
        return None;
    }
    let (path, key, ty) = cands[r.below(cands.len())].clone();
    let value = match ty.as_str() {
        "bool" => json!(r.chance(1, 2)),
        "char" => json!(*r.pick(&["C", "D", "N", "R", "X"])),
        "f64" => json!(*r.pick(&[0.0, 1.0, 0.00001, 100.5])),
        "u8" | "u16" | "u32" | "u64" | "usize" | "i32" | "i64" => json!(*r.pick(&[0, 1, 99])),
        "String" => json!(*r.pick(POOL)),
        "Vec<String>" => json!([*r.pick(LINES)]),
        "NaiveDate" => json!(*r.pick(&["2024-02-29", "2025-12-31", "2000-01-01"])),
        _ => return None,
    };
    Some(MutOp::Put { path, key, value })
}

fn propose(g: &Value, donor: &Value, donor2: &Value, vocab: &[String], hot: &Option<Vec<String>>, r: &mut Sm) -> Option<MutOp> {
    let mut ls = vec![];
    leaves(&g["fields"], vec!["fields".into()], &mut ls);
    if ls.is_empty() {
        return None;
    }
    let s = |x: &&str| Value::String(x.to_string());
    // amplify: the sequence element whose last mutation raised the error count is repeated, so that
    // the same rule fires in many transactions (a dozen, or a batch of a hundred and more)
    if let Some(h) = hot {
        if r.chance(1, 4) && get(g, h).is_some() {
            let times = if r.chance(1, 2) { 100 + r.below(30) } else { 8 + r.below(30) };
            return Some(MutOp::DupN { path: h.clone(), times });
        }
    }
    match r.below(20) {
        18 | 19 => propose_optional_member(g, r),
        16 | 17 => {
            // a list of coded elements (23E instruction codes and the like) replaced by 2–4 elements
            // with different codes from the pool: code-combination rules need several codes at once
            let mut cands: Vec<(Vec<String>, String)> = vec![];
            for (p, _) in &ls {
                if let Some(Value::Array(a)) = get(g, p) {
                    if let Some(Value::Object(o)) = a.first() {
                        if let Some(k) = o.iter().find(|(k, v)| k.contains("code") && v.is_string()).map(|(k, _)| k.clone()) {
                            cands.push((p.clone(), k));
                        }
                    }
                }
            }
            if cands.is_empty() {
                return None;
            }
            let (path, key) = cands[r.below(cands.len())].clone();
            let template = get(g, &path)?.as_array()?.first()?.clone();
            let n = 2 + r.below(3);
            let mut codes: Vec<&str> = vec![];
            while codes.len() < n {
                let c = *r.pick(CODES);
                if c.len() == 4 && !codes.contains(&c) {
                    codes.push(c);
                }
            }
            let arr: Vec<Value> = codes
                .iter()
                .map(|c| {
                    let mut e = template.clone();
                    e[&key] = Value::String(c.to_string());
                    e
                })
                .collect();
            Some(MutOp::Set { path, value: Value::Array(arr) })
        }
        14 | 15 => {
            // a key the type accepts but the draw does not carry, filled with a field object of the
            // draw (as is, wrapped in a list, or twice with a changed currency in the second copy)
            let have: Vec<&String> = g["fields"].as_object().map(|o| o.keys().collect()).unwrap_or_default();
            let missing: Vec<&String> = vocab.iter().filter(|k| !have.contains(k)).collect();
            if missing.is_empty() {
                return None;
            }
            let key = missing[r.below(missing.len())].clone();
            let pool: Vec<Value> = g["fields"].as_object().map(|o| o.iter().filter(|(k, _)| *k != "#").map(|(_, v)| v.clone()).collect::<Vec<_>>()).unwrap_or_default().into_iter().chain(donor.get("fields").and_then(|f| f.as_object()).map(|o| o.values().cloned().collect::<Vec<_>>()).unwrap_or_default()).collect();
            if pool.is_empty() {
                return None;
            }
            let v = pool[r.below(pool.len())].clone();
            let v = if let Value::Array(a) = &v { a.first().cloned().unwrap_or(v) } else { v };
            let mut v2 = v.clone();
            if let Some(c) = v2.get_mut("currency") {
                *c = s(r.pick(CUR));
            }
            let value = match r.below(4) {
                0 => v,
                1 => Value::Array(vec![v]),
                2 => Value::Array(vec![v, v2]),
                _ => Value::Array(vec![v2.clone(), v, v2]),
            };
            if r.chance(1, 4) {
                if let Some(Value::Array(a)) = g["fields"].get("#") {
                    if !a.is_empty() {
                        let i = r.below(a.len());
                        return Some(MutOp::Put { path: vec!["fields".into(), "#".into(), i.to_string()], key, value });
                    }
                }
            }
            Some(MutOp::Put { path: vec!["fields".into()], key, value })
        }
        13 => {
            let cand: Vec<_> = ls.iter().filter(|(p, _)| p.last().is_some_and(|k| k.parse::<usize>().is_ok())).collect();
            if cand.is_empty() {
                return None;
            }
            // mostly just past a "not more than ten" limit; sometimes a batch of a hundred and more
            let times = if r.chance(1, 6) { 100 + r.below(30) } else { 8 + r.below(5) };
            Some(MutOp::DupN { path: cand[r.below(cand.len())].0.clone(), times })
        }
        11 | 12 => {
            // cross-type donor: a field object under a key this type's scenarios may never carry
            let df = donor2.get("fields")?.as_object()?;
            let mut keys: Vec<&String> = df.keys().filter(|k| *k != "#").collect();
            let seq_keys: Vec<(&String, &Value)> = df.get("#").and_then(|a| a.as_array()).and_then(|a| a.first()).and_then(|o| o.as_object()).map(|o| o.iter().collect()).unwrap_or_default();
            if keys.is_empty() && seq_keys.is_empty() {
                return None;
            }
            let (k, v): (String, Value) = if !seq_keys.is_empty() && (keys.is_empty() || r.chance(1, 3)) {
                let (k, v) = seq_keys[r.below(seq_keys.len())];
                (k.clone(), v.clone())
            } else {
                let k = keys.swap_remove(r.below(keys.len())).clone();
                let v = df[&k].clone();
                (k, v)
            };
            if r.chance(1, 3) {
                if let Some(Value::Array(a)) = g["fields"].get("#") {
                    if !a.is_empty() {
                        let i = r.below(a.len());
                        return Some(MutOp::Put { path: vec!["fields".into(), "#".into(), i.to_string()], key: k, value: v });
                    }
                }
            }
            Some(MutOp::Put { path: vec!["fields".into()], key: k, value: v })
        }
        0..=3 => {
            let cand: Vec<_> = ls.iter().filter(|(_, l)| *l).collect();
            if cand.is_empty() {
                return None;
            }
            let (p, _) = cand[r.below(cand.len())].clone();
            let key = p.iter().rev().find(|k| k.parse::<usize>().is_err()).cloned().unwrap_or_default();
            let t = get(g, &p)?;
            let value = if t.as_str().is_some_and(|x| x.chars().count() == 1) && r.chance(1, 2) {
                // a one-character member (a `char` in the typed message: indicators, marks, signs) stays one character
                s(r.pick(&["A", "C", "D", "N", "R", "X", "Y", "0", "1", " "]))
            } else if key == "currency" {
                s(r.pick(CUR))
            } else if key.contains("code") || key == "debit_credit_mark" || key == "message_type" || key == "indicator" || key == "sign" || key == "mark" {
                s(r.pick(CODES))
            } else if t.is_number() {
                let f = t.as_f64().unwrap_or(0.0);
                json!(match r.below(6) {
                    0 => f + 1.0,
                    1 => f * 10.0,
                    2 => 0.0,
                    3 => f + 0.001,
                    4 => f + 0.01,
                    _ => (f / 2.0).floor(),
                })
            } else if key == "narrative" || key == "information" || key == "details" || key == "name_and_address" || key == "lines" {
                s(r.pick(LINES))
            } else if key == "bic" {
                s(r.pick(&["DEUTDEFF", "CHASUS33", "CHASUS33XXX", "BNPAFRPP", "ABNANL2A"]))
            } else if key == "account" || key == "party_identifier" {
                s(r.pick(&["/C/12345", "12345678", "/CH123456", "DE89370400440532013000", "/D/999"]))
            } else {
                s(r.pick(POOL))
            };
            Some(MutOp::Set { path: p, value })
        }
        4 | 5 => {
            let cand: Vec<_> = ls.iter().filter(|(p, _)| p.last().is_some_and(|k| k.parse::<usize>().is_err()) && p.len() <= 4 && p.len() >= 2).collect();
            if cand.is_empty() {
                return None;
            }
            Some(MutOp::Del { path: cand[r.below(cand.len())].0.clone() })
        }
        6 => {
            // copy a field object into a sibling object lacking/holding it (sequence A <-> sequence elements)
            let objs: Vec<Vec<String>> = std::iter::once(vec!["fields".to_string()]).chain(ls.iter().filter(|(p, _)| p.len() == 3 && p[2].parse::<usize>().is_ok()).map(|(p, _)| p.clone())).collect();
            let a = objs[r.below(objs.len())].clone();
            let b = objs[r.below(objs.len())].clone();
            if a == b {
                return None;
            }
            let so = get(g, &a)?.as_object()?;
            let keys: Vec<&String> = so.keys().filter(|k| *k != "#").collect();
            if keys.is_empty() {
                return None;
            }
            let k = keys[r.below(keys.len())].clone();
            Some(MutOp::Put { path: b, key: k.clone(), value: so[&k].clone() })
        }
        7 | 8 => {
            // donor: a field from another draw of the same message type
            let df = donor.get("fields")?.as_object()?;
            let keys: Vec<&String> = df.keys().filter(|k| *k != "#").collect();
            if keys.is_empty() {
                return None;
            }
            let k = keys[r.below(keys.len())].clone();
            if r.below(3) == 0 {
                if let Some(Value::Array(a)) = g["fields"].get("#") {
                    if !a.is_empty() {
                        let i = r.below(a.len());
                        return Some(MutOp::Put { path: vec!["fields".into(), "#".into(), i.to_string()], key: k.clone(), value: df[&k].clone() });
                    }
                }
            }
            Some(MutOp::Put { path: vec!["fields".into()], key: k.clone(), value: df[&k].clone() })
        }
        9 => {
            let cand: Vec<_> = ls.iter().filter(|(p, _)| p.last().is_some_and(|k| k.parse::<usize>().is_ok())).collect();
            if cand.is_empty() {
                return None;
            }
            Some(MutOp::Dup { path: cand[r.below(cand.len())].0.clone() })
        }
        _ => {
            let cand: Vec<_> = ls.iter().filter(|(p, _)| p.last().is_some_and(|k| k.parse::<usize>().is_ok())).collect();
            if cand.is_empty() {
                return None;
            }
            Some(MutOp::Rm { path: cand[r.below(cand.len())].0.clone() })
        }
    }
}

pub struct Subject {
    pub mt: String,
    pub text: String,
    pub parsed: ParsedSwiftMessage,
    /// a copy taken before any validation call touched the message
    pub pristine: ParsedSwiftMessage,
    pub snap: (u64, u64),
    /// false for a typed subject whose text does not parse back to exactly the same message
    pub plugin_ok: bool,
    pub typed: bool,
}

/// In-place edit of a message's public fields (repetitive sequences; for MT103 two optional
/// fields), using `donor` (same type) as the source of foreign elements. Returns whether the
/// message was changed.
fn edit_in_place(p: &mut ParsedSwiftMessage, donor: &ParsedSwiftMessage, how: u64) -> bool {
    macro_rules! vec_edit {
        ($m:expr, $d:expr, $f:ident) => {{
            let v = &mut $m.fields.$f;
            match how % 4 {
                0 => {
                    if v.len() > 1 {
                        v.pop();
                        true
                    } else {
                        false
                    }
                }
                1 => match v.first().cloned() {
                    Some(x) => {
                        v.push(x);
                        true
                    }
                    None => false,
                },
                2 => {
                    *v = $d.fields.$f.clone();
                    true
                }
                _ => match $d.fields.$f.last().cloned() {
                    Some(x) => {
                        v.push(x);
                        true
                    }
                    None => false,
                },
            }
        }};
    }
    use ParsedSwiftMessage as P;
    match (p, donor) {
        (P::MT101(m), P::MT101(d)) => vec_edit!(m, d, transactions),
        (P::MT104(m), P::MT104(d)) => vec_edit!(m, d, transactions),
        (P::MT107(m), P::MT107(d)) => vec_edit!(m, d, transactions),
        (P::MT110(m), P::MT110(d)) => vec_edit!(m, d, cheques),
        (P::MT204(m), P::MT204(d)) => vec_edit!(m, d, transactions),
        (P::MT210(m), P::MT210(d)) => vec_edit!(m, d, transactions),
        (P::MT920(m), P::MT920(d)) => vec_edit!(m, d, sequence),
        (P::MT935(m), P::MT935(d)) => vec_edit!(m, d, rate_changes),
        (P::MT940(m), P::MT940(d)) => vec_edit!(m, d, statement_lines),
        (P::MT942(m), P::MT942(d)) => vec_edit!(m, d, statement_lines),
        (P::MT103(m), P::MT103(d)) => {
            match how % 3 {
                0 => m.fields.field_23e = None,
                1 => m.fields.field_23e = d.fields.field_23e.clone(),
                _ => m.fields.field_72 = d.fields.field_72.clone(),
            }
            true
        }
        _ => false,
    }
}

/// JSON → MT text → auto-detected parse, all through the library; `None` when
/// the library rejects the message (outside C13's domain) or panics.
fn build(mt_hint: &str, g: &Value) -> Option<(String, ParsedSwiftMessage)> {
    std::panic::catch_unwind(std::panic::AssertUnwindSafe(|| {
        let text = mt::json_to_text(mt_hint, g).ok()?;
        let p = mt::parse_auto(&text).ok()?;
        Some((text, p))
    }))
    .ok()
    .flatten()
}

/// JSON → typed message (the subject) → its MT text; the flag says whether that text parses back to
/// exactly the typed message.
fn build_typed(mt_hint: &str, g: &Value) -> Option<(String, ParsedSwiftMessage, bool)> {
    std::panic::catch_unwind(std::panic::AssertUnwindSafe(|| {
        let m0 = mt::json_to_typed(mt_hint, g).ok()?;
        let (j0, text) = mt::snapshot(&m0);
        // a typed message may carry content the parser would reject (that is what the T-series rules are
        // about): it is still a subject for the direct entry points; the plugin is judged only on an exact text
        let exact = match mt::parse_auto(&text) {
            Ok(p) if p.message_type() == m0.message_type() => {
                let (j1, text1) = mt::snapshot(&p);
                let mut d = vec![];
                crate::util::json_diff(&j0, &j1, "", &mut d);
                d.is_empty() && text1 == text
            }
            _ => false,
        };
        Some((text, m0, exact))
    }))
    .ok()
    .flatten()
}

fn nerr(p: &ParsedSwiftMessage) -> Option<usize> {
    std::panic::catch_unwind(std::panic::AssertUnwindSafe(|| mt::vnr(p, false).len())).ok()
}

fn snap_digest(p: &ParsedSwiftMessage) -> (u64, u64) {
    let (j, t) = mt::snapshot(p);
    (fnv_str(&j.to_string()), fnv_str(&t))
}

// ---------------------------------------------------------------- operations

#[derive(Clone, Debug, PartialEq)]
enum OpResult {
    Errors(Vec<Value>, Vec<String>),
    VResult { is_valid: bool, errors: Vec<Value>, warnings: usize },
    Plugin { out: Value, exec_err: Option<String>, polls: u32, input_changed: Option<String> },
    Snap(u64, u64),
    Edited { applied: bool, full: Vec<Value>, full_codes: Vec<String>, stop: Vec<Value>, valid: (bool, usize), pristine_full: Vec<Value>, pristine_codes: Vec<String> },
    Panicked(String),
    Harness(String),
}

fn errs_to_values(v: &[swift_mt_message::SwiftValidationError]) -> OpResult {
    OpResult::Errors(v.iter().map(|e| serde_json::to_value(e).unwrap_or(Value::Null)).collect(), v.iter().map(|e| e.error_code().to_string()).collect())
}

fn vres(r: swift_mt_message::ValidationResult) -> OpResult {
    OpResult::VResult { is_valid: r.is_valid, errors: r.errors.iter().map(|e| serde_json::to_value(e).unwrap_or(Value::Null)).collect(), warnings: r.warnings.len() }
}

fn exec_clone_edit(s: &Subject, donor: &Subject, how: u64) -> OpResult {
    // the history that matters: validate first, then clone, then edit the clone
    let _ = mt::vnr(&s.parsed, false);
    let mut c = s.parsed.clone();
    let same_type = c.message_type() == donor.parsed.message_type();
    let applied = if same_type { edit_in_place(&mut c, &donor.pristine, how) } else { edit_in_place(&mut c, &s.pristine, how % 2) };
    let full = mt::vnr(&c, false);
    let stop = mt::vnr(&c, true);
    let v = mt::swift_validate(&c);
    // the same edit on a copy no validation call has ever touched
    let mut fresh = s.pristine.clone();
    let _ = if same_type { edit_in_place(&mut fresh, &donor.pristine, how) } else { edit_in_place(&mut fresh, &s.pristine, how % 2) };
    let pf = mt::vnr(&fresh, false);
    let ser = |v: &[swift_mt_message::SwiftValidationError]| -> (Vec<Value>, Vec<String>) { (v.iter().map(|e| serde_json::to_value(e).unwrap_or(Value::Null)).collect(), v.iter().map(|e| e.error_code().to_string()).collect()) };
    let (full_v, full_codes) = ser(&full);
    let (stop_v, _) = ser(&stop);
    let (pf_v, pf_codes) = ser(&pf);
    OpResult::Edited { applied, full: full_v, full_codes, stop: stop_v, valid: (v.is_valid, v.errors.len()), pristine_full: pf_v, pristine_codes: pf_codes }
}

fn exec_plugin_reuse(s: &Subject, msg: &mut Message) -> OpResult {
    let object_shape = s.text.len() % 3 == 0;
    let input = if object_shape { json!({"mt_message": s.text}) } else { Value::String(s.text.clone()) };
    msg.data_mut()["mt"] = input.clone();
    msg.invalidate_context_cache();
    let cfg = FunctionConfig::Custom { name: "validate_mt".into(), input: json!({"source": "mt", "target": "vr"}) };
    let h = swift_mt_message::plugin::Validate;
    match block_on(h.execute(msg, &cfg, Arc::new(datalogic_rs::DataLogic::new()))) {
        Ok((r, polls)) => {
            let after = msg.data().get("mt").cloned().unwrap_or(Value::Null);
            let input_changed = if after != input { Some(format!("the source field was {} before the call and is {} after it", short(&input), short(&after))) } else { None };
            OpResult::Plugin { out: msg.data().get("vr").cloned().unwrap_or(Value::Null), exec_err: r.err().map(|e| format!("{e:?}")), polls, input_changed }
        }
        Err(e) => OpResult::Harness(e),
    }
}

fn exec_op(kind: OpKind, s: &Subject) -> OpResult {
    match kind {
        OpKind::CloneEdit => OpResult::Harness("CloneEdit needs a donor".into()),
        OpKind::PluginReuse => OpResult::Harness("PluginReuse needs the caller's message".into()),
        OpKind::VnrFull => errs_to_values(&mt::vnr(&s.parsed, false)),
        OpKind::VnrStop => errs_to_values(&mt::vnr(&s.parsed, true)),
        OpKind::SwiftValidate => vres(mt::swift_validate(&s.parsed)),
        OpKind::ParsedValidate => vres(s.parsed.validate()),
        OpKind::CloneVnr => {
            let c = s.parsed.clone();
            errs_to_values(&mt::vnr(&c, false))
        }
        OpKind::Snapshot => {
            let (a, b) = snap_digest(&s.parsed);
            OpResult::Snap(a, b)
        }
        OpKind::PluginDirect => {
            let mut msg = Message::from_value(&json!({}));
            // both documented source shapes: the bare text, and an object carrying it as `mt_message`
            let object_shape = s.text.len() % 2 == 0;
            let input = if object_shape { json!({"mt_message": s.text, "origin": "generate_mt"}) } else { Value::String(s.text.clone()) };
            msg.data_mut()["mt"] = input.clone();
            msg.invalidate_context_cache();
            let cfg = FunctionConfig::Custom { name: "validate_mt".into(), input: json!({"source": "mt", "target": "vr"}) };
            let h = swift_mt_message::plugin::Validate;
            match block_on(h.execute(&mut msg, &cfg, Arc::new(datalogic_rs::DataLogic::new()))) {
                Ok((r, polls)) => {
                    let after = msg.data().get("mt").cloned().unwrap_or(Value::Null);
                    let input_changed = if after != input { Some(format!("the source field was {} before the call and is {} after it", short(&input), short(&after))) } else { None };
                    OpResult::Plugin { out: msg.data().get("vr").cloned().unwrap_or(Value::Null), exec_err: r.err().map(|e| format!("{e:?}")), polls, input_changed }
                }
                Err(e) => OpResult::Harness(e),
            }
        }
        OpKind::PluginEngine => {
            let wf = json!({"id": "v", "name": "v", "priority": 0, "tasks": [
                {"id": "validate", "name": "validate", "function": {"name": "validate_mt", "input": {"source": "payload", "target": "vr"}}}]});
            let wf = match Workflow::from_json(&wf.to_string()) {
                Ok(w) => w,
                Err(e) => return OpResult::Harness(format!("workflow: {e:?}")),
            };
            let mut fns: HashMap<String, Box<dyn AsyncFunctionHandler + Send + Sync>> = HashMap::new();
            for (n, h) in swift_mt_message::plugin::register_swift_mt_functions() {
                fns.insert(n.to_string(), h);
            }
            let engine = dataflow_rs::Engine::new(vec![wf], Some(fns));
            let mut msg = Message::from_value(&Value::String(s.text.clone()));
            match block_on(engine.process_message(&mut msg)) {
                Ok((r, polls)) => {
                    let mut err = r.err().map(|e| format!("{e:?}"));
                    if err.is_none() && !msg.errors.is_empty() {
                        err = Some(msg.errors[0].message.clone());
                    }
                    OpResult::Plugin { out: msg.data().get("vr").cloned().unwrap_or(Value::Null), exec_err: err, polls, input_changed: None }
                }
                Err(e) => OpResult::Harness(e),
            }
        }
    }
}

fn digest_result(r: &OpResult) -> String {
    match r {
        OpResult::Errors(v, codes) => format!("errors[{}] {} {}", v.len(), codes.join(","), hex(fnv_str(&serde_json::to_string(v).unwrap_or_default()))),
        OpResult::VResult { is_valid, errors, warnings } => format!("vresult valid={is_valid} errors={} warnings={warnings} {}", errors.len(), hex(fnv_str(&serde_json::to_string(errors).unwrap_or_default()))),
        OpResult::Plugin { out, exec_err, polls, .. } => {
            let mut o = out.clone();
            if let Some(m) = o.as_object_mut() {
                m.remove("timestamp");
            }
            format!("plugin valid={} errors={} polls={polls} err={} {}", out["valid"], out["errors"].as_array().map(|a| a.len()).unwrap_or(0), exec_err.is_some(), hex(fnv_str(&o.to_string())))
        }
        OpResult::Snap(a, b) => format!("snap {} {}", hex(*a), hex(*b)),
        OpResult::Edited { applied, full_codes, stop, valid, pristine_codes, .. } => format!("edited applied={applied} full={} stop={} valid={valid:?} pristine={}", full_codes.join(","), stop.len(), pristine_codes.join(",")),
        OpResult::Panicked(p) => format!("panicked {}", p.chars().take(60).collect::<String>()),
        OpResult::Harness(h) => format!("harness {h}"),
    }
}

fn viol(class: String, detail: String) -> Violation {
    Violation { property: "C13".into(), class, detail }
}

fn first_diff_code(a: &[Value], ac: &[String], b: &[Value], bc: &[String]) -> String {
    for i in 0..a.len().max(b.len()) {
        if a.get(i) != b.get(i) {
            return ac.get(i).or(bc.get(i)).cloned().unwrap_or_default();
        }
    }
    String::new()
}

fn show_errs(v: &[Value]) -> String {
    let s: Vec<String> = v.iter().map(|e| short(e)).collect();
    format!("[{}]", s.join(" ; ")).chars().take(700).collect()
}

/// History record of one phase, and the invariants over it.
struct History {
    /// per subject: results by kind, in issue order
    recs: Vec<(usize, usize, usize, OpKind, OpResult)>, // (seq, caller, subject, kind, result)
}

impl History {
    /// L(m): the list returned by the first full validation of subject m.
    fn l(&self, m: usize) -> Option<(&Vec<Value>, &Vec<String>)> {
        self.recs.iter().find_map(|r| match (&r.4, r.3, r.2 == m) {
            (OpResult::Errors(v, c), OpKind::VnrFull, true) => Some((v, c)),
            _ => None,
        })
    }

    fn check(&self, subjects: &[Subject]) -> Option<Violation> {
        for (m, s) in subjects.iter().enumerate() {
            let mt = format!("MT{}", s.mt);
            let Some((l, lc)) = self.l(m) else { continue };
            let mut plugin_ref: Option<(usize, Value)> = None;
            let mut vres_ref: BTreeMap<&'static str, (usize, &OpResult)> = BTreeMap::new();
            for (seq, caller, sm, kind, res) in &self.recs {
                if *sm != m {
                    continue;
                }
                match (kind, res) {
                    (OpKind::VnrFull | OpKind::CloneVnr, OpResult::Errors(v, c)) => {
                        if v != l {
                            let code = first_diff_code(l, lc, v, c);
                            return Some(viol(
                                format!("C13/I1 {mt} {code} repeated validation differs"),
                                format!("operation {seq} ({kind:?} by caller {caller}) on subject {m} returned {} but the first full validation returned {}", show_errs(v), show_errs(l)),
                            ));
                        }
                    }
                    (OpKind::VnrStop, OpResult::Errors(v, c)) => {
                        let is_prefix = v.len() <= l.len() && v[..] == l[..v.len()];
                        if !is_prefix {
                            return Some(viol(
                                format!("C13/I2 {mt} stop-on-first result is not a prefix of the full list"),
                                format!("operation {seq} on subject {m}: stop-on-first returned codes {c:?} {}, full list has codes {lc:?} {}", show_errs(v), show_errs(l)),
                            ));
                        }
                        if v.is_empty() != l.is_empty() {
                            return Some(viol(
                                format!("C13/I2 {mt} stop-on-first empty although the full list is not"),
                                format!("operation {seq} on subject {m}: stop-on-first returned {} error(s), the full list has codes {lc:?}", v.len()),
                            ));
                        }
                    }
                    (OpKind::SwiftValidate | OpKind::ParsedValidate, OpResult::VResult { is_valid, errors, .. }) => {
                        let (inv, name) = if *kind == OpKind::SwiftValidate { ("I3", "SwiftMessage::validate") } else { ("I4", "ParsedSwiftMessage::validate") };
                        let mut bad = *is_valid != l.is_empty() || errors.len() != l.len();
                        if !bad {
                            for (e, code) in errors.iter().zip(lc.iter()) {
                                if let Ok(ValidationError::BusinessRuleValidation { rule_name, .. }) = serde_json::from_value::<ValidationError>(e.clone()) {
                                    if &rule_name != code {
                                        bad = true;
                                    }
                                }
                            }
                        }
                        if bad {
                            return Some(viol(
                                format!("C13/{inv} {mt} {name} disagrees with the full list"),
                                format!("operation {seq} on subject {m}: {name} returned is_valid={is_valid} with {} error(s) {}; the full list has codes {lc:?}", errors.len(), show_errs(errors)),
                            ));
                        }
                        let key = if *kind == OpKind::SwiftValidate { "swift" } else { "parsed" };
                        match vres_ref.get(key) {
                            Some((s0, r0)) if *r0 != res => {
                                return Some(viol(
                                    format!("C13/I1 {mt} {name} repeated call differs"),
                                    format!("operations {s0} and {seq} on subject {m} returned different results: {} vs {}", digest_result(r0), digest_result(res)),
                                ));
                            }
                            None => {
                                vres_ref.insert(key, (*seq, res));
                            }
                            _ => {}
                        }
                    }
                    (OpKind::PluginDirect | OpKind::PluginEngine | OpKind::PluginReuse, OpResult::Plugin { out, exec_err, input_changed, .. }) => {
                        if let Some(c) = input_changed {
                            return Some(viol(format!("C13/I6 {mt} validate_mt changed the message it was asked to validate"), format!("operation {seq} on subject {m}: {c}")));
                        }
                        if !s.plugin_ok {
                            continue;
                        }
                        if let Some(e) = exec_err {
                            return Some(viol(format!("C13/I5 {mt} plugin execution fails on a parseable message"), format!("operation {seq} on subject {m}: {e}")));
                        }
                        let errs = out["errors"].as_array().cloned().unwrap_or_default();
                        let mut bad = out["valid"] != json!(l.is_empty()) || errs.len() != l.len();
                        if !bad {
                            for (e, code) in errs.iter().zip(lc.iter()) {
                                if !e.as_str().is_some_and(|s| s.starts_with(&format!("[{code}]"))) {
                                    bad = true;
                                }
                            }
                        }
                        if !bad && out.get("message_type").and_then(|v| v.as_str()) != Some(s.parsed.message_type()) {
                            bad = true;
                        }
                        if bad {
                            return Some(viol(
                                format!("C13/I5 {mt} plugin verdict disagrees with the full list"),
                                format!("operation {seq} on subject {m}: plugin returned valid={} message_type={} errors={}; the full list has codes {lc:?}", out["valid"], out["message_type"], short(&out["errors"])),
                            ));
                        }
                        let mut o = out.clone();
                        if let Some(mm) = o.as_object_mut() {
                            mm.remove("timestamp");
                        }
                        match &plugin_ref {
                            Some((s0, r0)) if *r0 != o => {
                                return Some(viol(
                                    format!("C13/I5 {mt} plugin output depends on time or call position"),
                                    format!("operations {s0} and {seq} on subject {m} differ beyond the timestamp: {} vs {}", short(r0), short(&o)),
                                ));
                            }
                            None => plugin_ref = Some((*seq, o)),
                            _ => {}
                        }
                    }
                    (OpKind::CloneEdit, OpResult::Edited { applied, full, full_codes, stop, valid, pristine_full, pristine_codes }) => {
                        if *applied {
                            let is_prefix = stop.len() <= full.len() && stop[..] == full[..stop.len()];
                            if !is_prefix || stop.is_empty() != full.is_empty() {
                                return Some(viol(
                                    format!("C13/I2 {mt} stop-on-first vs full list on an edited copy"),
                                    format!("operation {seq} on subject {m}: after validate → clone → in-place edit, stop-on-first returned {} error(s), the full list has codes {full_codes:?}", stop.len()),
                                ));
                            }
                            if valid.0 != full.is_empty() || valid.1 != full.len() {
                                return Some(viol(
                                    format!("C13/I3 {mt} SwiftMessage::validate disagrees with the full list on an edited copy"),
                                    format!("operation {seq} on subject {m}: validate returned is_valid={} with {} error(s), the full list has codes {full_codes:?}", valid.0, valid.1),
                                ));
                            }
                            if full != pristine_full {
                                return Some(viol(
                                    format!("C13/I8 {mt} validation of an edited copy depends on what was validated before the edit"),
                                    format!("operation {seq} on subject {m}: validate → clone → edit → validate returned codes {full_codes:?}; the same edit on a never-validated copy returns {pristine_codes:?}"),
                                ));
                            }
                        }
                    }
                    (OpKind::Snapshot, OpResult::Snap(a, b)) => {
                        if (*a, *b) != s.snap {
                            return Some(viol(
                                format!("C13/I6 {mt} message changed by validation"),
                                format!("snapshot at operation {seq} of subject {m} ({} / {}) differs from the one taken before the first operation ({} / {})", hex(*a), hex(*b), hex(s.snap.0), hex(s.snap.1)),
                            ));
                        }
                    }
                    _ => {}
                }
            }
        }
        None
    }
}

struct PhaseOut {
    history: History,
    log: Vec<String>,
    violation: Option<Violation>,
    discard: Option<String>,
    harness: Option<String>,
    polls: u64,
}

fn run_phase(ctx: &Arc<seam::RunCtx>, e_h: u64, subjects: &Arc<Vec<Subject>>, callers: usize, ops: &[Op], rotate: usize, diag: bool) -> PhaseOut {
    ctx.rekey_entropy(e_h);
    let k = callers.clamp(1, 4);
    let mut po = PhaseOut { history: History { recs: vec![] }, log: vec![], violation: None, discard: None, harness: None, polls: 0 };
    let mut cmd_tx = vec![];
    let mut resp_rx = vec![];
    let mut handles = vec![];
    for _ in 0..k {
        let (ctx_c, subs) = (ctx.clone(), subjects.clone());
        let (tx, rx) = mpsc::channel::<Option<(OpKind, usize, u64)>>();
        let (rtx, rrx) = mpsc::channel::<OpResult>();
        cmd_tx.push(tx);
        resp_rx.push(rrx);
        handles.push(std::thread::spawn(move || {
            let _a = seam::attach(&ctx_c);
            let mut long_lived: Option<Message> = None;
            while let Ok(Some((kind, m, aux))) = rx.recv() {
                let r = std::panic::catch_unwind(std::panic::AssertUnwindSafe(|| {
                    with_diag(diag, || {
                        if kind == OpKind::PluginReuse {
                            let msg = long_lived.get_or_insert_with(|| Message::from_value(&json!({})));
                            exec_plugin_reuse(&subs[m], msg)
                        } else if kind == OpKind::CloneEdit {
                            exec_clone_edit(&subs[m], &subs[(aux as usize / 8) % subs.len()], aux % 8)
                        } else {
                            exec_op(kind, &subs[m])
                        }
                    })
                }))
                .unwrap_or_else(|p| {
                    OpResult::Panicked(p.downcast_ref::<String>().cloned().or(p.downcast_ref::<&str>().map(|s| s.to_string())).unwrap_or("panic".into()))
                });
                if rtx.send(r).is_err() {
                    break;
                }
            }
        }));
    }
    // closing reads: a full validation, a stop-on-first validation and a snapshot of every subject
    let mut all: Vec<Op> = ops.to_vec();
    for m in 0..subjects.len() {
        all.push(Op { caller: m, subject: m, kind: OpKind::VnrFull, jump_ns: 0, aux: 0 });
        all.push(Op { caller: m + 2, subject: m, kind: OpKind::VnrStop, jump_ns: 0, aux: 0 });
        all.push(Op { caller: m + 1, subject: m, kind: OpKind::Snapshot, jump_ns: 0, aux: 0 });
    }
    for (seq, op) in all.iter().enumerate() {
        if subjects.is_empty() {
            break;
        }
        let m = op.subject % subjects.len();
        let c = (op.caller + rotate) % k;
        if op.jump_ns != 0 {
            ctx.jump_now(op.jump_ns);
        }
        if cmd_tx[c].send(Some((op.kind, m, op.aux))).is_err() {
            po.discard = Some("caller thread gone".into());
            break;
        }
        let r = resp_rx[c].recv().unwrap_or(OpResult::Panicked("caller thread gone".into()));
        po.log.push(format!("{seq} c{c} {:?} s{m}{} -> {}", op.kind, if op.jump_ns != 0 { format!(" jump={}ns", op.jump_ns) } else { String::new() }, digest_result(&r)));
        match &r {
            OpResult::Panicked(p) => {
                po.discard = Some(format!("panic in {:?} (MT{}): {}", op.kind, subjects[m].mt, p.chars().take(60).collect::<String>()));
                break;
            }
            OpResult::Harness(h) => {
                po.harness = Some(h.clone());
                break;
            }
            OpResult::Plugin { polls, .. } => po.polls += *polls as u64,
            _ => {}
        }
        po.history.recs.push((seq, c, m, op.kind, r));
        // invariants are evaluated at every return
        if let Some(v) = po.history.check(subjects) {
            po.violation = Some(v);
            break;
        }
    }
    for tx in &cmd_tx {
        let _ = tx.send(None);
    }
    for h in handles {
        let _ = h.join();
    }
    po
}

impl Engine for C13 {
    type Spec = Spec;
    const ID: &'static str = "validate-history";
    const PROPERTY: &'static str = "C13";

    fn plan(env: &Env, base: u64, i: u64) -> Spec {
        let nf = env.scenarios.len();
        let run_seed = derive(base, "validate/run", i);
        let mut w = Sm(derive(run_seed, "workload", 0));
        let mut s = Sm(derive(run_seed, "sched", 0));
        let mut cr = Sm(derive(run_seed, "clock", 0));
        let n_subj = *w.pick(&[1usize, 1, 1, 2, 2, 3]);
        let mut subjects: Vec<SubjectSpec> = vec![];
        for k in 0..n_subj {
            // the first subject walks the scenario files; further subjects are drawn
            let idx = if k == 0 { (i % nf as u64) as usize } else { w.below(nf) };
            let sc = &env.scenarios[idx];
            let same: Vec<&scen::Scenario> = env.scenarios.iter().filter(|x| x.mt == sc.mt).collect();
            let donor = same[w.below(same.len())].rel.clone();
            let target = *w.pick(&[0usize, 1, 1, 2, 2, 3, 3, 4]);
            let donor2 = Some(env.scenarios[w.below(nf)].rel.clone());
            // a later subject is, one time in three, a sibling of the first: same draw, its own mutations
            let sibling_of = if k > 0 && w.chance(1, 3) { Some(0) } else { None };
            let (scenario, donor) = if sibling_of.is_some() { (subjects[0].scenario.clone(), subjects[0].donor.clone()) } else { (sc.rel.clone(), donor) };
            let attempts = if target >= 2 { 36 } else { 14 };
            let output_header = w.chance(1, 6);
            let typed = Sm(derive(run_seed, "typed", k as u64)).chance(1, 4);
            subjects.push(SubjectSpec { scenario, donor, donor2, sibling_of, output_header, typed, plan: MutPlan::Climb { seed: derive(run_seed, "climb", k as u64), target, attempts } });
        }
        let callers = 1 + s.below(4);
        let n_ops = 6 + s.below(19);
        let class = cr.below(N_CLOCK_CLASSES);
        let clock = gen_clock(class, i, &mut cr);
        let mut ops = vec![];
        for _ in 0..n_ops {
            let kind = *s.pick(&[
                OpKind::VnrFull, OpKind::VnrFull, OpKind::VnrFull, OpKind::VnrStop, OpKind::VnrStop, OpKind::VnrStop, OpKind::SwiftValidate, OpKind::SwiftValidate, OpKind::ParsedValidate, OpKind::ParsedValidate, OpKind::PluginDirect,
                OpKind::PluginDirect, OpKind::PluginEngine, OpKind::CloneVnr, OpKind::Snapshot, OpKind::CloneEdit, OpKind::PluginReuse, OpKind::PluginReuse,
            ]);
            let jump_ns = if s.chance(1, 5) {
                let d = *cr.pick(&[seam::NS, 3600 * seam::NS, seam::DAY_NS, 40 * seam::DAY_NS, 400 * seam::DAY_NS]);
                if cr.chance(1, 2) { d } else { -d }
            } else {
                0
            };
            ops.push(Op { caller: s.below(callers), subject: s.below(n_subj), kind, jump_ns, aux: s.next() % 64 });
        }
        Spec {
            run_seed,
            subjects,
            e_w: derive(run_seed, "entropy/draw", 0),
            e_h: derive(run_seed, "entropy/hash", 0),
            paired_e_h: derive(run_seed, "entropy/hash", 1),
            paired_sched: derive(run_seed, "sched", 1),
            clock,
            callers,
            ops,
            diag: w.chance(1, 3),
            env_fault: if w.chance(1, 4) { Some((w.below(1000), w.below(1000))) } else { None },
        }
    }

    fn execute(env: &Env, spec: &Spec) -> (Outcome, Option<Spec>) {
        let mut out = Outcome::default();
        out.log.push(format!(
            "run_seed={} engine=validate-history subjects={:?} e_w={} e_h={} paired_e_h={} paired_sched={} callers={} ops={} {}",
            spec.run_seed,
            spec.subjects.iter().map(|s| s.scenario.as_str()).collect::<Vec<_>>(),
            hex(spec.e_w), hex(spec.e_h), hex(spec.paired_e_h), hex(spec.paired_sched), spec.callers, spec.ops.len(), spec.clock.describe()
        ));
        let mut scs = vec![];
        for s in &spec.subjects {
            let d2 = s.donor2.as_ref().and_then(|d| scen::find(&env.scenarios, d)).cloned();
            match (scen::find(&env.scenarios, &s.scenario), scen::find(&env.scenarios, &s.donor)) {
                (Some(a), Some(b)) => scs.push((a.clone(), b.clone(), d2)),
                _ => {
                    out.harness_error = Some(format!("scenario {} / {} not found", s.scenario, s.donor));
                    return (out, None);
                }
            }
        }
        let ctx = spec.clock.ctx(spec.e_w);
        let ctx2 = ctx.clone();
        let spec2 = spec.clone();
        let o2 = out.clone();
        let vocabs: Vec<Vec<String>> = scs.iter().map(|(sc, _, _)| env.vocab.get(&sc.mt).cloned().unwrap_or_default()).collect();
        let env_set = apply_env_fault(env, spec.env_fault);
        if env_set.is_some() {
            out.count("fault.env.variable_named_in_source_set", 1);
        }
        let o2 = out.clone();
        let res = on_fresh_thread(move || {
            let mut out = o2;
            let _a = seam::attach(&ctx2);
            // key this (scheduler) thread's RandomState now, under E_w, so that no
            // later map created on it draws from the operations-phase stream
            let _ = std::collections::hash_map::RandomState::new();
            let mut resolved = spec2.clone();
            // ---- generation phase (under E_w): subjects
            let mut subjects: Vec<Subject> = vec![];
            let mut base_draws: Vec<Value> = vec![];
            for (k, (ss, (sc, donor_sc, donor2_sc))) in spec2.subjects.iter().zip(scs.iter()).enumerate() {
                let generate = |v: &Value| datafake_rs::DataGenerator::from_value(v.clone()).ok().and_then(|g| g.generate().ok());
                let drawn = match ss.sibling_of.and_then(|j| base_draws.get(j)) {
                    Some(b) => Some(b.clone()),
                    None => generate(&sc.value),
                };
                let Some(mut g) = drawn else {
                    out.discard = Some("scenario draw failed".into());
                    return (out, None);
                };
                base_draws.push(g.clone());
                if ss.sibling_of.is_some() {
                    out.count("probe.sibling_subject_same_headers", 1);
                }
                let donor = generate(&donor_sc.value).unwrap_or(Value::Null);
                let donor2 = donor2_sc.as_ref().and_then(|d| generate(&d.value)).unwrap_or(Value::Null);
                let mut accepted: Vec<MutOp> = vec![];
                match &ss.plan {
                    MutPlan::Explicit(ops) => {
                        for op in ops {
                            if apply_op(&mut g, op) {
                                accepted.push(op.clone());
                            }
                        }
                    }
                    MutPlan::Climb { seed, target, attempts } => {
                        let mut r = Sm(*seed);
                        let mut hot: Option<Vec<String>> = None;
                        let no_path: Vec<String> = vec![];
                        let measure = |g: &Value| if ss.typed { build_typed(&sc.mt, g).and_then(|(_, p, _)| nerr(&p)) } else { build(&sc.mt, g).and_then(|(_, p)| nerr(&p)) };
                        let mut cur = measure(&g).unwrap_or(0);
                        for _ in 0..*attempts {
                            if cur >= *target {
                                break;
                            }
                            let Some(op) = propose(&g, &donor, &donor2, &vocabs[k], &hot, &mut r) else { continue };
                            let saved = g.clone();
                            if !apply_op(&mut g, &op) || g == saved {
                                g = saved;
                                continue;
                            }
                            match measure(&g) {
                                Some(n) if n >= cur => {
                                    if n > cur || r.chance(1, 3) {
                                        if n > cur {
                                            // remember the sequence element (fields/#/i) this mutation touched, if any
                                            let path: &Vec<String> = match &op {
                                                MutOp::Set { path, .. } | MutOp::Del { path } | MutOp::Put { path, .. } | MutOp::Dup { path } | MutOp::Rm { path } | MutOp::DupN { path, .. } | MutOp::RepeatArray { path, .. } => path,
                                                MutOp::RotateArrays => &no_path,
                                            };
                                            hot = if path.len() >= 3 && path[1] == "#" { Some(path[..3].to_vec()) } else { hot };
                                        }
                                        accepted.push(op);
                                        cur = n;
                                    } else {
                                        g = saved;
                                    }
                                }
                                _ => g = saved,
                            }
                        }
                    }
                }
                let built = if ss.typed { build_typed(&sc.mt, &g) } else { build(&sc.mt, &g).map(|(t, p)| (t, p, true)) };
                let Some((mut text, mut parsed, plugin_ok)) = built else {
                    out.discard = Some(format!("subject outside the domain (not publishable / not parseable): MT{}", sc.mt));
                    return (out, None);
                };
                if ss.typed {
                    out.count("probe.typed_subject", 1);
                    if !plugin_ok {
                        out.count("probe.typed_subject_text_not_exact", 1);
                    }
                }
                if ss.output_header && !ss.typed {
                    // {2:I<mt><receiver 12><priority…>} → {2:O<mt><input time><MIR: date, LT, session, sequence><output date><output time><priority>}
                    if let Some(a) = text.find("{2:I") {
                        if let Some(end) = text[a..].find('}') {
                            let inner = &text[a + 3..a + end];
                            if inner.len() >= 16 {
                                let lt = &inner[4..16];
                                let out_hdr = format!("{{2:O{}1535051028{}08264556280510281535N}}", &inner[1..4], lt);
                                let rewritten = format!("{}{}{}", &text[..a], out_hdr, &text[a + end + 1..]);
                                if let Ok(p) = std::panic::catch_unwind(std::panic::AssertUnwindSafe(|| mt::parse_auto(&rewritten))) {
                                    if let Ok(p) = p {
                                        text = rewritten;
                                        parsed = p;
                                        out.count("probe.subject_with_output_application_header", 1);
                                    }
                                }
                            }
                        }
                    }
                }
                resolved.subjects[k].plan = MutPlan::Explicit(accepted.clone());
                let snap = snap_digest(&parsed);
                out.log.push(format!("subject {k} MT{} text={} bytes={} muts={}", parsed.message_type(), hex(fnv_str(&text)), text.len(), serde_json::to_string(&accepted).unwrap_or_default().chars().take(300).collect::<String>()));
                let pristine = parsed.clone();
                subjects.push(Subject { mt: parsed.message_type().to_string(), text, parsed, pristine, snap, plugin_ok, typed: ss.typed });
            }
            out.content_digest = fnv_str(&subjects.iter().map(|s| s.text.as_str()).collect::<Vec<_>>().join("\u{1}"));
            let subjects = Arc::new(subjects);

            // ---- operations phase A
            let a = run_phase(&ctx2, spec2.e_h, &subjects, spec2.callers, &spec2.ops, 0, spec2.diag);
            for l in &a.log {
                out.log.push(format!("A {l}"));
            }
            out.count("exec.polls", a.polls);
            if let Some(h) = a.harness {
                out.harness_error = Some(h);
                return (out, Some(resolved));
            }
            if let Some(d) = a.discard {
                out.discard = Some(d);
                return (out, Some(resolved));
            }
            if let Some(v) = a.violation {
                out.violation = Some(v);
                return (out, Some(resolved));
            }
            // ---- paired phase B: second hash entropy, second schedule (ops permuted, callers rotated)
            let mut ops_b = spec2.ops.clone();
            let mut pr = Sm(spec2.paired_sched);
            for i in (1..ops_b.len()).rev() {
                ops_b.swap(i, pr.below(i + 1));
            }
            let b = run_phase(&ctx2, spec2.paired_e_h, &subjects, spec2.callers, &ops_b, 1 + pr.below(3), spec2.diag);
            out.count("paired_runs", 1);
            out.count("exec.polls", b.polls);
            out.log.push(format!("B history={}", hex(fnv_str(&b.log.join("\n")))));
            if let Some(h) = b.harness {
                out.harness_error = Some(h);
                return (out, Some(resolved));
            }
            if let Some(d) = b.discard {
                out.discard = Some(d);
                return (out, Some(resolved));
            }
            if let Some(mut v) = b.violation {
                v.detail = format!("(in the paired execution under the second hash entropy and schedule) {}", v.detail);
                out.violation = Some(v);
                return (out, Some(resolved));
            }
            // I7: same subjects, different hash entropy and schedule, same L(m)
            for (m, s) in subjects.iter().enumerate() {
                if let (Some((la, ca)), Some((lb, cb))) = (a.history.l(m), b.history.l(m)) {
                    if la != lb {
                        let code = first_diff_code(la, ca, lb, cb);
                        out.violation = Some(viol(
                            format!("C13/I7 MT{} {code} error list depends on hash entropy or schedule", s.mt),
                            format!("subject {m}: first execution returned {}, paired execution returned {}", show_errs(la), show_errs(lb)),
                        ));
                        return (out, Some(resolved));
                    }
                }
            }
            // reach
            let mut nontrivial = false;
            for (m, s) in subjects.iter().enumerate() {
                if let Some((l, codes)) = a.history.l(m) {
                    out.count(match l.len() { 0 => "probe.subject_errors_0", 1 => "probe.subject_errors_1", 2 => "probe.subject_errors_2", _ => "probe.subject_errors_3plus" }, 1);
                    for c in codes {
                        out.count(&format!("pair.MT{}:{c}", s.mt), 1);
                    }
                    if codes.len() >= 2 {
                        out.artifacts.push(json!({"mt": s.mt, "text": s.text, "codes": codes}));
                    }
                    if !codes.is_empty() {
                        // message type × multiset of codes (multiplicity capped at 3): "MT101|D67x3+E46"
                        let mut cnt: BTreeMap<&str, usize> = BTreeMap::new();
                        for c in codes {
                            *cnt.entry(c.as_str()).or_insert(0) += 1;
                        }
                        let key: Vec<String> = cnt.iter().map(|(c, n)| if *n > 1 { format!("{c}x{}", (*n).min(3)) } else { c.to_string() }).collect();
                        out.harvest.push(format!("MT{}|{}", s.mt, key.join("+")));
                        if s.typed {
                            // in-memory messages: message type × set of (code @ field the finding names)
                            fn field_of(v: &Value) -> Option<&str> {
                                match v {
                                    Value::Object(o) => o.get("field").and_then(|f| f.as_str()).or_else(|| o.values().find_map(field_of)),
                                    _ => None,
                                }
                            }
                            let set: std::collections::BTreeSet<String> = l.iter().zip(codes.iter()).map(|(e, c)| format!("{c}@{}", field_of(e).unwrap_or("-"))).collect();
                            out.harvest.push(format!("MT{}|typed{}|{}", s.mt, if s.plugin_ok { "" } else { "-inexact" }, set.into_iter().collect::<Vec<_>>().join("+")));
                        }
                    }
                    let n_ops = a.history.recs.iter().filter(|r| r.2 == m).count();
                    if !l.is_empty() && n_ops >= 2 {
                        nontrivial = true;
                    }
                    if l.len() >= 2 && a.history.recs.iter().any(|r| r.2 == m && r.3 == OpKind::VnrStop && matches!(&r.4, OpResult::Errors(v, _) if v.len() < l.len())) {
                        out.count("probe.stop_mode_truncated_a_multi_error_list", 1);
                    }
                }
            }
            out.nontrivial = nontrivial;
            out.count("operations", (a.history.recs.len() + b.history.recs.len()) as u64);
            (out, Some(resolved))
        });
        let (mut out, resolved) = match res {
            Ok(x) => x,
            Err(p) => {
                out.discard = Some(format!("panic in harness thread: {}", p.chars().take(80).collect::<String>()));
                (out, None)
            }
        };
        clear_env_fault(env_set);
        out.absorb_ctx(&ctx);
        let shape: Vec<String> = spec.ops.iter().map(|o| format!("{}{:?}{}", o.caller, o.kind, o.subject)).collect();
        out.shape_digest = fnv_str(&format!("{}|{}", spec.callers, shape.join(" ")));
        out.count(&format!("callers.{}", spec.callers.clamp(1, 4)), 1);
        if spec.diag {
            out.count("config.diagnostics_subscriber_installed", 1);
        }
        (out, resolved)
    }

    fn shrink_candidates(spec: &Spec) -> Vec<Spec> {
        let mut v = vec![];
        // fewer subjects
        if spec.subjects.len() > 1 {
            for k in 0..spec.subjects.len() {
                let mut s = spec.clone();
                s.subjects.remove(k);
                for sub in s.subjects.iter_mut() {
                    sub.sibling_of = match sub.sibling_of {
                        Some(j) if j == k => None,
                        Some(j) if j > k => Some(j - 1),
                        x => x,
                    };
                }
                s.ops = s.ops.into_iter().filter(|o| o.subject % spec.subjects.len() != k).map(|mut o| {
                    let m = o.subject % spec.subjects.len();
                    o.subject = if m > k { m - 1 } else { m };
                    o
                }).collect();
                v.push(s);
            }
        }
        if spec.callers > 1 {
            let mut s = spec.clone();
            s.callers = 1;
            v.push(s);
        }
        for k in 0..spec.subjects.len() {
            if spec.subjects[k].typed {
                let mut s = spec.clone();
                s.subjects[k].typed = false;
                v.push(s);
            }
        }
        if spec.diag {
            let mut s = spec.clone();
            s.diag = false;
            v.push(s);
        }
        if spec.env_fault.is_some() {
            let mut s = spec.clone();
            s.env_fault = None;
            v.push(s);
        }
        let plain = ClockCfg::plain();
        if spec.clock != plain {
            let mut s = spec.clone();
            s.clock = plain;
            v.push(s);
        }
        if spec.ops.iter().any(|o| o.jump_ns != 0) {
            let mut s = spec.clone();
            s.ops.iter_mut().for_each(|o| o.jump_ns = 0);
            v.push(s);
        }
        let n = spec.ops.len();
        if n > 1 {
            let mut s = spec.clone();
            s.ops.truncate(n / 2);
            v.push(s);
            let mut s = spec.clone();
            s.ops.drain(..n / 2);
            v.push(s);
        }
        for k in (0..n).rev() {
            let mut s = spec.clone();
            s.ops.remove(k);
            v.push(s);
        }
        for (k, sub) in spec.subjects.iter().enumerate() {
            if let MutPlan::Explicit(ops) = &sub.plan {
                for j in 0..ops.len() {
                    let mut s = spec.clone();
                    let mut o = ops.clone();
                    o.remove(j);
                    s.subjects[k].plan = MutPlan::Explicit(o);
                    v.push(s);
                }
            }
        }
        v
    }

    fn amplify(spec: &Spec) -> Option<Spec> {
        // the recorded subject as a large batch: its sequence repeated to about 70–130 elements
        let mut s = spec.clone();
        let mut any = false;
        for sub in s.subjects.iter_mut() {
            if let MutPlan::Explicit(ops) = &mut sub.plan {
                if sub.typed {
                    // an in-memory subject: its repeated fields rotated by one (what was found on the first occurrence is now on the last)
                    ops.push(MutOp::RotateArrays);
                } else {
                    ops.push(MutOp::RepeatArray { path: vec!["fields".into(), "#".into()], target: 70 + (spec.run_seed % 60) as usize });
                }
                any = true;
            }
        }
        s.run_seed ^= 0xA5A5;
        if any { Some(s) } else { None }
    }

    fn describe(spec: &Spec) -> Value {
        json!({"subjects": spec.subjects.iter().map(|s| json!({"scenario": s.scenario, "donor": s.donor, "plan": match &s.plan { MutPlan::Climb { target, attempts, .. } => format!("hill-climb to {target} errors in <= {attempts} attempts"), MutPlan::Explicit(o) => format!("{} explicit mutations", o.len()) }})).collect::<Vec<_>>(),
               "callers": spec.callers, "ops": spec.ops.len(), "clock": spec.clock.describe(),
               "e_w": hex(spec.e_w), "e_h": hex(spec.e_h), "paired_e_h": hex(spec.paired_e_h)})
    }
}

#[allow(unused_imports)]
use on_parsed as _;
